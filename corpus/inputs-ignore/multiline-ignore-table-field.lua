-- https://github.com/JohnnyMorganz/StyLua/issues/705

require("foo").bar {
	-- stylua: ignore start
	baz      =0,
	foo   =   2,
	-- stylua: ignore end
	bar        =     1234
}
