local foo = {
	-- stylua: ignore
	x   =    2,
	y  =  3,
	z        =   " he "  ,
}

local bar = {
	x   =    2,
	-- stylua: ignore
	y  =  3,
	z        =   " he "  ,
}

local baz = {
	x   =    2,
	y  =  3,
	-- stylua: ignore
	z        =   " he "  ,
}
