local foo     =      bar
do
    -- stylua: ignore start
    local bar   =     baz
    -- stylua: ignore end
    local bar   =     baz
end
local bar   =     baz
