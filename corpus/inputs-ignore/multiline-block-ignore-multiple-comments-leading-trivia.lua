--stylua: ignore start
local a   =   1
--stylua: ignore end

--stylua: ignore start
local b   =   2
--stylua: ignore end

--stylua: ignore start
local c   =   3
--stylua: ignore end

-- Some very large comment

--stylua: ignore start
local d   =   4
--stylua: ignore end
