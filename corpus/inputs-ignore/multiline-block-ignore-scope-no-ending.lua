local foo     =      bar
do
    -- stylua: ignore start
    local bar   =     baz
    local bar   =     baz
end
local bar   =     baz
