-- stylua: ignore
return      "hi"
