local foo     =      bar
-- stylua: ignore
local bar   =     baz
