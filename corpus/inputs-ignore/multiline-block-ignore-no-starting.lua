local foo     =      bar
local bar   =     baz
local bar   =     baz
-- stylua: ignore end
local bar   =     baz
