local foo     =      bar
-- stylua: ignore
local bar   =     baz
local bar   =     baz
