local   x     = 1
-- stylua: ignore
function foo   ()
    return    x +    1
end
