local foo     =      bar
-- stylua: ignore start
local bar   =     baz
local bar   =     baz
-- stylua: ignore end
local bar   =     baz
