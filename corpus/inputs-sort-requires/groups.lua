local ReplicatedStorage = game:GetService("ReplicatedStorage")
local mainB = require(ReplicatedStorage.B)
local mainA = require(ReplicatedStorage.A)

local Packages = ReplicatedStorage.Packages
local Z = require(Packages.Z)
local Y = require(Packages.Y)
local X = require(Packages.X)

local Modules = ReplicatedStorage.Modules
local C = require(Modules.C)
local B = require(Modules.B)
local A = require(Modules.A)
