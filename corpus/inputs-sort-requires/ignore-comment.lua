-- stylua: ignore
local c   = require("c")
local b = require("b")
local a = require("a")

local c = require("c")
-- stylua: ignore
local b   = require("b")
local a = require("a")

local c = require("c")
local b = require("b")
-- stylua: ignore
local a   = require("a")
