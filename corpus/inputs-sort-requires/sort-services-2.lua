-- Requires should be treated as a separate group to services
local ReplicatedStorage = game:GetService("ReplicatedStorage")
local CollectionService = game:GetService("CollectionService")
local C = require("C")
local A = require("A")
