-- Services
local C = require("C")
local B = require("B")
local A = require("A")

-- Packages
local Z = require("Z")
local Y = require("Y")
local X = require("X")
