local c = require("c")
local b, a = require("b"), require("a")
