local ReplicatedStorage = game:GetService("ReplicatedStorage")
local CollectionService = game:GetService("CollectionService")
