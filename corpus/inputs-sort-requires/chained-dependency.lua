local holder = script.Parent
local modules = holder.Modules
local cee = require(modules.Script)
local bee = require(modules.BeeMovie)
local aa = require(modules.Test)
print("hello!")
