local parent = script.Parent
local x = foo()
local bee = require("aaa")
local cee = require(parent.Cee)
local aaa = require(parent.Script)

print("hello world")
