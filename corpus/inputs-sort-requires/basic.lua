local bee = require("b")
local ah = require("a")

print("hello world")
