-- from full-moon tests: https://github.com/Kampfkarren/full-moon/blob/main/full-moon/tests/roblox_cases/pass/if_expression/source.lua
local x = if foo then foo.x else 5
local y = (if x then x.indices else create()):update(if shouldUpdate then information else defaults)
local z = (if bar then foo.y else 5) :: number

local a = if foo then foo.x elseif bar then bar.x else 5
local b = if foo then if bar then bar else foo else 5
local c = if foo then (foo.x :: number) elseif bar then bar.x()() else 5
local d = if foo then 5 else baz :: number

if if foo then bar else baz then
end
