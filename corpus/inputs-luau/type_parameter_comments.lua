function foo(
	bar: number,
	baz: number -- test
): number
	print("test")
end