export type GraphQLInputType =
	GraphQLScalarType
	| GraphQLEnumType
	| GraphQLInputObjectType
	| GraphQLList<GraphQLScalarType | GraphQLEnumType | GraphQLInputObjectType | GraphQLList<any> | GraphQLNonNull<GraphQLScalarType | GraphQLEnumType | GraphQLInputObjectType | GraphQLList<GraphQLScalarType | GraphQLEnumType | GraphQLInputObjectType | GraphQLList<any> | GraphQLNonNull<GraphQLScalarType | GraphQLEnumType | GraphQLInputObjectType>>>>
	| GraphQLNonNull<GraphQLScalarType | GraphQLEnumType | GraphQLInputObjectType | GraphQLList<GraphQLScalarType | GraphQLEnumType | GraphQLInputObjectType | GraphQLList<any> | GraphQLNonNull<GraphQLScalarType | GraphQLEnumType | GraphQLInputObjectType>>>
