cache:writeQuery({
	data = {
		items = Array.concat({}, (function()
			local ref = if Boing.toXYZBoxinf(data) and data ~= nil
					then  data.items
					else data
			return Boing.toXYZBoxinf(ref) and ref
		end)() or {}, { item }),
	},
})

local error_ = if errors and #(errors :: Array<any>) > 0
	then ApolloError.new({ graphQLErrors = errors })
	else nil

local function useMutation<TData, TVariables, TContext, TCache>(
	mutation: DocumentNode | TypedDocumentNode<TData, TContext>,
	options: MutationHookOptions_<TData, TVariables, TContext>?
): MutationTuple<TData, TVariables, TContext, TCache>
	local context = useContext(getApolloContext())
	local result, setResult = useState({ called = false, loading = false })
	local updatedOptions = if options
		then Object.assign({}, options, { mutation = mutation })
		else { mutation = mutation }
end
