type PromptSettings = {
    object: string,
    action: string,
    holdDuration: number,
    keyboardKey: KeyCode,
    gamepadKey: KeyCode,
    distance: number,
    lineOfSight: boolean,
    offset: Vector2,
}

export type Sprite = {
	Image: string, ImageRectOffset: Vector2, ImageRectSize: Vector2 }
