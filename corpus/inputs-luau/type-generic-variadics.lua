local function mergeDeep<T...>(...: T...) -- : TupleToIntersection<...T>
	return mergeDeepArray({ ... })
end
