--!strict

type Array<T> = { [number]: T }
type Dictionary<T> = { [string]: T }

local RunService = game:GetService("RunService")

local INVALID_DUMP_VERSION = "API dump is an invalid version `%i` (expected version 1)"
local MODULE_NOT_READY_MESSAGE = "API has not been fetched yet; try using API.isReady() before calling API functions"
local CLASS_NOT_REAL_MESSAGE = "Class `%s` is not a valid Roblox class"
local API_REQUEST_FAILED_MESSAGE = "Could not get API dump: `%s`. Retrying in %i seconds."

local ApiTypes = require(script.ApiTypes)
local FetchApi = require(script.FetchApi)
local Filters = require(script.Filters)
local Util = require(script.Util)

local ReadyBindable = Instance.new("BindableEvent")

local classMap: Dictionary<ApiTypes.Class> = {}
local superClassMap: Dictionary<Array<ApiTypes.Class>> = {}

local dump: ApiTypes.API

local filterSecurity = Util.filterSecurity
local filterTags = Util.filterTags
local lookupify = Util.lookupify
local cloneMember = Util.cloneMember


local function tryAPI(): ()
	if dump then return end
	
	dump = FetchApi()
	
	if dump.Version ~= 1 then
		error(string.format(INVALID_DUMP_VERSION, dump.Version), 2)
	end
	
	for _, class in ipairs(dump.Classes) do
		classMap[class.Name] = class
	end
	
	for className in pairs(classMap) do
		local classTables = {}
		local root = className
		while classMap[root] do
			table.insert(classTables, 1, classMap[root])
			root = classMap[root].Superclass
		end
		superClassMap[className] = classTables
	end
end

local API = {}

API.readyEvent = ReadyBindable.Event
API.filters = Filters

function API.isReady()
	return not not dump
end

function API.getMembers(class: string, tagFilter: Array<string>?, securityFilter: Array<string>?): Dictionary<ApiTypes.Member>
	if not dump then
		error(MODULE_NOT_READY_MESSAGE, 2)
	end
	
	local superClasses: Array<ApiTypes.Class> = superClassMap[class]
	if not superClasses then
		error(string.format(CLASS_NOT_REAL_MESSAGE, class), 2)
	end
	
	local tagLookup: Dictionary<boolean> = lookupify(tagFilter)
	local securityLookup: Dictionary<boolean> = lookupify(securityFilter)
	
	local memberList: Dictionary<ApiTypes.Member> = {}
	for _, class in ipairs(superClasses) do
		for _, v in ipairs(class.Members) do
			if filterSecurity(v.Security, securityLookup) then continue end
			if filterTags(v.Tags, tagLookup) then continue end
			
			memberList[v.Name] = cloneMember(v)
		end
	end
	
	return memberList
end

function API.getProperties(class: string, tagFilter: Array<string>?, securityFilter: Array<string>?): Dictionary<ApiTypes.Property>
	if not dump then
		error(MODULE_NOT_READY_MESSAGE, 2)
	end
	
	local superClasses: Array<ApiTypes.Class> = superClassMap[class]
	if not superClasses then
		error(string.format(CLASS_NOT_REAL_MESSAGE, class), 2)
	end
	
	local tagLookup: Dictionary<boolean> = lookupify(tagFilter)
	local securityLookup: Dictionary<boolean> = lookupify(securityFilter)
	
	local memberList: Dictionary<ApiTypes.Property> = {}
	for _, class in ipairs(superClasses) do
		for _, v in ipairs(class.Members) do
			if v.MemberType ~= "Property" then continue end
			if filterSecurity(v.Security, securityLookup) then continue end
			if filterTags(v.Tags, tagLookup) then continue end
			
			memberList[v.Name] = cloneMember(v)
		end
	end
	
	return memberList
end


function API.getFunctions(class: string, tagFilter: Array<string>?, securityFilter: Array<string>?): Dictionary<ApiTypes.Function>
	if not dump then
		error(MODULE_NOT_READY_MESSAGE, 2)
	end
	
	local superClasses: Array<ApiTypes.Class> = superClassMap[class]
	if not superClasses then
		error(string.format(CLASS_NOT_REAL_MESSAGE, class), 2)
	end
	
	local tagLookup: Dictionary<boolean> = lookupify(tagFilter)
	local securityLookup: Dictionary<boolean> = lookupify(securityFilter)
	
	local memberList: Dictionary<ApiTypes.Function> = {}
	for _, class in ipairs(superClasses) do
		for _, v in ipairs(class.Members) do
			if v.MemberType ~= "Function" then continue end
			if filterSecurity(v.Security, securityLookup) then continue end
			if filterTags(v.Tags, tagLookup) then continue end
			
			memberList[v.Name] = cloneMember(v)
		end
	end
	
	return memberList
end

function API.getEvents(class: string, tagFilter: Array<string>?, securityFilter: Array<string>?): Dictionary<ApiTypes.Event>
	if not dump then
		error(MODULE_NOT_READY_MESSAGE, 2)
	end
	
	local superClasses: Array<ApiTypes.Class> = superClassMap[class]
	if not superClasses then
		error(string.format(CLASS_NOT_REAL_MESSAGE, class), 2)
	end
	
	local tagLookup: Dictionary<boolean> = lookupify(tagFilter)
	local securityLookup: Dictionary<boolean> = lookupify(securityFilter)
	
	local memberList: Dictionary<ApiTypes.Event> = {}
	for _, class in ipairs(superClasses) do
		for _, v in ipairs(class.Members) do
			if v.MemberType ~= "Event" then continue end
			if filterSecurity(v.Security, securityLookup) then continue end
			if filterTags(v.Tags, tagLookup) then continue end
			
			memberList[v.Name] = cloneMember(v)
		end
	end
	
	return memberList
end


function API.getCallbacks(class: string, tagFilter: Array<string>?, securityFilter: Array<string>?): Dictionary<ApiTypes.Callback>
	if not dump then
		error(MODULE_NOT_READY_MESSAGE, 2)
	end
	
	local superClasses: Array<ApiTypes.Class> = superClassMap[class]
	if not superClasses then
		error(string.format(CLASS_NOT_REAL_MESSAGE, class), 2)
	end
	
	local tagLookup: Dictionary<boolean> = lookupify(tagFilter)
	local securityLookup: Dictionary<boolean> = lookupify(securityFilter)
	
	local memberList: Dictionary<ApiTypes.Callback> = {}
	for _, class in ipairs(superClasses) do
		for _, v in ipairs(class.Members) do
			if v.MemberType ~= "Callback" then continue end
			if filterSecurity(v.Security, securityLookup) then continue end
			if filterTags(v.Tags, tagLookup) then continue end
			
			memberList[v.Name] = cloneMember(v)
		end
	end
	
	return memberList
end

function API.getSuperclasses(class: string): Array<string>
	if not dump then
		error(MODULE_NOT_READY_MESSAGE, 2)
	end
	
	local superClasses: Array<ApiTypes.Class> = superClassMap[class]
	if not superClasses then
		error(string.format(CLASS_NOT_REAL_MESSAGE, class), 2)
	end
	
	local list = {}
	for i, class in ipairs(superClasses) do
		list[i] = class.Name
	end
	
	return list
end

function API.isDeprecated(class: string, member: string?): boolean
	if not dump then
		error(MODULE_NOT_READY_MESSAGE, 2)
	end
	
	local classTable: ApiTypes.Class = classMap[class]
	if not classTable then
		error(string.format(CLASS_NOT_REAL_MESSAGE, class), 2)
	end
	
	if member then
		local members = API.getMembers(class, {"Deprecated"})
		if members[member] then
			return true
		else
			return false
		end
	else
		local tags: typeof(classTable.Tags) = classTable.Tags
		if tags then
			if table.find(tags, "Deprecated") then
				return true
			end
		end
	end
	return false
end

function API.isService(class: string): boolean
	if not dump then
		error(MODULE_NOT_READY_MESSAGE, 2)
	end
	
	local classTable: ApiTypes.Class = classMap[class]
	if not classTable then
		error(string.format(CLASS_NOT_REAL_MESSAGE, class), 2)
	end
	
	local tags: typeof(classTable.Tags) = classTable.Tags
	if tags then
		if table.find(tags, "Service") then
			return true
		end
	end
	return false
end

function API.getClasses(filter: Array<string>?): Array<string>
	if not dump then
		error(MODULE_NOT_READY_MESSAGE, 2)
	end
	local classList: Array<string> = {}
	
	local tagLookup: Dictionary<boolean> = lookupify(filter)
	
	local classCount = 1
	
	for _, v in ipairs(dump.Classes) do
		if filterTags(v.Tags, tagLookup) then continue end
		
		classList[classCount] = v.Name
		classCount += 1
	end
	
	return classList
end

function API.getEnums(filter: Array<string>?): Array<string>
	if not dump then
		error(MODULE_NOT_READY_MESSAGE, 2)
	end
	local enumList: Array<string> = {}
	
	local tagLookup: Dictionary<boolean> = lookupify(filter)
	
	local enumCount = 1
	
	for _, v in ipairs(dump.Enums) do
		if filterTags(v.Tags, tagLookup) then continue end
		
		enumList[enumCount] = v.Name
		enumCount += 1
	end
	
	return enumList
end

export type Member = ApiTypes.Member
export type Property = ApiTypes.Property
export type Function = ApiTypes.Function
export type Event = ApiTypes.Event
export type Callback = ApiTypes.Callback

return API
