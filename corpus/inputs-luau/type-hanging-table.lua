-- https://github.com/JohnnyMorganz/StyLua/issues/394#issuecomment-1054865101
type QueryManagerPrivate<TStore> = QueryManager<TStore> & {
	inFlightLinkObservables: Map<DocumentNode, Map<string, Observable<FetchResult<{ [string]: any }, Record<string, any>, Record<string,any>>>>>,
}
