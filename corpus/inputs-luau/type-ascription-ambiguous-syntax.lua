local foo = bar;
(foo :: number).length = true