export type IntrospectionType = IntrospectionScalarType | IntrospectionObjectType | IntrospectionInterfaceType | IntrospectionUnionType | IntrospectionEnumType | IntrospectionInputObjectType

export type IntrospectionOutputType = IntrospectionScalarType | IntrospectionObjectType | IntrospectionInterfaceType | IntrospectionUnionType | IntrospectionEnumType

export type IntrospectionInputType = IntrospectionScalarType | IntrospectionEnumType | IntrospectionInputObjectType