type X = {
	useMemo: <T...>(nextCreate: () -> T..., deps: Array<any> | nil) -> T...,
}
