export type ObservableQueryFields<TData, TVariables> = ObservableQueryPick<TData, TVariables> & {
    fetchMore: ((
        _self: any,
        fetchMoreOptions: FetchMoreQueryOptions<TVariables, TData> & FetchMoreOptions<TData, TVariables>
    ) -> Promise<ApolloQueryResult<TData>>) & ((<TData2, TVariables2>(
        _self: any,
        fetchMoreOptions: { query: (DocumentNode | TypedDocumentNode<TData, TVariables>)? } & FetchMoreQueryOptions<TVariables2, TData> & FetchMoreOptions<TData2, TVariables2>
    ) -> Promise<ApolloQueryResult<TData2>>)),
}

export type ObservableQueryFields<TData, TVariables> = ObservableQueryPick<TData, TVariables> & {
	fetchMore: ((
		_self: any,
		FetchMoreQueryOptions<TVariables, TData> & FetchMoreOptions<TData, TVariables>
	) -> Promise<ApolloQueryResult<TData>>) & ((
		-- ROBLOX deviation: dont have function generics
		{ query: (DocumentNode | TypedDocumentNode<TData, TVariables>)? } & FetchMoreQueryOptions<any, TData> & FetchMoreOptions<any, any>
	) -> Promise<ApolloQueryResult<any>>),
}

type Foo = (
	a: X & -- test
	Y
) -> string

type Foo = () -> X & -- test
Y
