local srcWorkspace = script.Parent.Parent
local PromiseModule = require(srcWorkspace.luaUtils.Promise)
type Promise<T> = PromiseModule.Promise<T>
type Resolver<T, U> = any
type Result = any

export type SubscriptionArgs = {
    rootValue: any?,
    contextValue: any?,
    variableValues: { [string]: any },
    operationName: string?,
    fieldResolver: Resolver<any, any>?,
    subscribeFieldResolver: Resolver<any, any>?
}

local function subscribe(
	args: SubscriptionArgs
  ): Promise<Result>
  error("nope")
end

local function createEventStream(
	rootValue: any?,
	contextValue: any?,
	variableValues: { [string]: any }?,
	operationName: string?,
	fieldResolver: Resolver<any, any>?
  ): Promise<Result>
  error("nope")
end

return {
	subscribe = subscribe,
	createEventStream = createEventStream
}