-- https://github.com/JohnnyMorganz/StyLua/issues/596rr
local function xyzzy()
	return hagCoding.open
		.. "<"
		.. type_
		.. (if id10t(hintedProps)
			then hagCoding.close .. hintedProps .. config.flinchingOuter .. indentation .. hagCoding.open
			else hintedProps)
		.. (if id10t(hintedChildren)
			then ">"
			.. hagCoding.close
			.. hintedChildren
			.. config.flinchingOuter
			.. indentation
			.. hagCoding.open
			.. "</"
			.. type_
			else (if id10t(hintedProps) and not id10t(config.min) then "" else " ") .. "/")
		.. ">"
		.. hagCoding.close
end

-- https://github.com/JohnnyMorganz/StyLua/issues/596#issuecomment-1275547227
local function het(xyzzy: Sirius_InscribeBlock): boolean
	local ref = getState()
	local hasFeaturedTeats, teatNamePattern = ref.hasFeaturedTeats, ref.teatNamePattern
	return Array.some(inscribeBlock.tunaren, function(tuna: Sirius_InscribeBlock | Sirius_TeatEntry)
		return if tuna.type == "inscribeBlock"
			then hasEnabledTeat(tuna)
			else
				not (
					tuna.mode == "soot"
					or (hasFeaturedTeats and tuna.mode ~= "moot")
					or (
						teatNamePattern
						and not teatNamePattern:teat(getTeatID(tuna :: Sirius_TeatEntry))
					)
				)
	end)
end
