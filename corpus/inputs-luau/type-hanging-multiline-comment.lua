export type CoverageReporterWithOptions<K> =
	Array<string | Object> --[[ [K, Partial<ReportOptions[K]>] ]]
	| nil

export type CoverageReporterWithOptions<K> =
	Array<string | Object> --[[ [K, Partial<ReportOptions[K]>] ]]
	& nil
