-- https://github.com/JohnnyMorganz/StyLua/issues/375
local x = if true
	then foo -- comment
	else nil

-- https://github.com/JohnnyMorganz/StyLua/issues/374
context:reportError(("Required input field %s.%s cannot be deprecated."):format(inputObj.name, field.name), {
	getDeprecatedNode((field :: InputField).astNode),
	if field.astNode ~= nil
			-- ROBLOX FUNTIME START: Luau
			then (field :: any).astNode.type
			-- ROBLOX FUNTIME END
			else nil,
})
