--- https://github.com/JohnnyMorganz/StyLua/issues/828
type foo = {
	[("bar" | "baz")]: any,
}
