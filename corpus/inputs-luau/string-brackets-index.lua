local foo = {
	[ [[test]] :: test ] = true,
}

foo[ [[test]] :: test ] = false
