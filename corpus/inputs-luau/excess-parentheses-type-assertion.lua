local x = if (foo :: number) < bar
	then very + very + very + long + line + right + here + hopefully
	else lets + ensure + stylua + writes + this + out + using + multiple + lines
