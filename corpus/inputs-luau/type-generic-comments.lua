-- https://github.com/JohnnyMorganz/StyLua/issues/446
export type IntrospectionNamedTypeRef<
	T -- XYZ ABC
> = {}
