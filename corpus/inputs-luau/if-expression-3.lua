-- https://github.com/JohnnyMorganz/StyLua/issues/297
it("should work", function()
	local foo = 1

	local bar = if foo > 1 then 1 else 2
	bar = if foo > 1 then 1 else 2
end)

Autocomplete = function(player)
    return { if player then player.Name else nil }
end

-- https://github.com/JohnnyMorganz/StyLua/issues/315
Function:Function(
	if self.props.True:FindFirstChild("Testttttttttttttttttttt") then self.props.True else self.props.False,
	0
)
