export type Foo = {
	test: boolean -- true
}
