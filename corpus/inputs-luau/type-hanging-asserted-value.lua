-- https://github.com/JohnnyMorganz/StyLua/issues/466
function example()
	do
		do
			self = (setmetatable(Error.new(createErrDiff(actual, expected, operator)), AssertionError) :: any) :: AssertionError
		end
	end
end
