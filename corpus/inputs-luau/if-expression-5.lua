-- https://github.com/JohnnyMorganz/StyLua/issues/582
do
	do
		local defaultValue = if aaaaaaaaaaaaaaaaaaaaaaaaaaaaaaaaaaaaaaaaaaaaaaaaaa
			then aaaaaaaaaaaa(bbbbbbbbbb(cccccccccccccccccccccccccccccccccccc :: string), type_ :: dddddddddddddddddddddd)
			else nil
	end
end
