-- https://github.com/JohnnyMorganz/StyLua/issues/893
type Foo = {
	Status: "loading" -- loading 
	| "error" -- error
	| "success" -- success
}