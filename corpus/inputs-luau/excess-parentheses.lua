local foo = (bar :: any) :: number

-- https://github.com/JohnnyMorganz/StyLua/issues/345
local foo = (if true then 0 else 1) + 1

-- https://github.com/JohnnyMorganz/StyLua/issues/383
local firstPendingUpdate = ((lastPendingUpdate.next :: any) :: Update<State>)

local x = #(value :: Array<number>)

-- https://github.com/JohnnyMorganz/StyLua/issues/425
self.mutationStore[mutationId] = (
	{
		lolz = foreva,
		variables = variables,
	} :: anyyyyyyyyyyyyyyyyyyyyyyyyyyyyyyyyyyyyyyyyyyyyyyyyyyyyyyyyyyyyyyyyyyyyyyyyyyyyyyyyyyyyyyyyyyyyyyyyyyyyyyyyyyyyyy
) :: MutationStoreValue

local _name = debug.info(fn :: ((any) -> any), "n")

-- https://github.com/JohnnyMorganz/StyLua/issues/441
if string.len(string_) > (length :: number) then
    return string_:sub(1, (length :: number) + 1) .. "…"
else
    return string_
end

if fiber.actualStartTime ~= nil and (fiber.actualStartTime :: number) < 0 then
    fiber.actualStartTime = now()
end

-- https://github.com/JohnnyMorganz/StyLua/issues/530
foo(
	-- testing
	(x :: string) -- testing
)

-- https://github.com/JohnnyMorganz/StyLua/issues/611
local function foo(): (number)
end

-- https://github.com/JohnnyMorganz/StyLua/issues/679
type A = B & (C | D)
type A = B & (C?)
type A = ((string) -> string) & ((number) -> number)
type A = (A | B)?
type A = (A | B) -- comment

-- https://github.com/JohnnyMorganz/StyLua/issues/729
type SomeType<T..., U...> = (T...) -> U...
local fn: SomeType<(string, number), (boolean)>
