do
	for _, foo in
		applyFoooooo(
			aaaaaaaaaaaaaaaaaaaa, --[[:: Array<aaaaaaaaaaaaaaaaa>]]
			bbbbbbbbbbbbbbbbbb --[[:: Array<bbbbbbbbbbbbbbb>]]
		) :: Array<aaaaaaaaaaaaaaaaa | bbbbbbbbbbbbbbb>
	do
	end
end
