-- https://github.com/JohnnyMorganz/StyLua/issues/439
exports.separateDisplayNameAndHOCs =
	function(displayName: string | nil, type_: ElementType): (string | nil, Array<string> | nil)
		if displayName == nil then
			return nil, nil
		end

		local hocDisplayNames: Array<string>? = nil

		if
			type_ == ElementTypeClass
			or type_ == ElementTypeForwardRef
			or type_ == ElementTypeFunction
			or type_ == ElementTypeMemo
		then
			-- ROBLOX deviation: use match instead of indexOf
			if (displayName :: string):match("%(") then
				-- ROBLOX deviation: use gmatch instead of /[^()]+/g
				local matches = (displayName :: string):gmatch("[^()]+")
				local nextMatch = matches()
				if nextMatch then
					displayName = nextMatch
					hocDisplayNames = {}
					while nextMatch :: any ~= nil do
						-- TODO: https://github.com/Kampfkarren/full-moon/issues/140
						-- Including the following statements cause a stack overflow:
						-- nextMatch = matches()
						-- table.insert(hocDisplayNames :: Array<string>, nextMatch)
					end
				end
			end
		end
	end
