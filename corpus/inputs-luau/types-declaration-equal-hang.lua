type SubscribeToMoreOptions<TData, TSubscriptionVariables, TSubscriptionData> =
	watchQueryOptionsModule.SubscribeToMoreOptions<TData, TSubscriptionVariables, TSubscriptionData>
