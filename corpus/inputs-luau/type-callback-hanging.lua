export type Thenable<R, U> = {
	andTheeeeeeeeeeeeeeen: (any, (R) -> () | Thenable<R, U> | U, (any) -> () | Thenable<R, U> | U) -> () | Thenable<R, U>,
}
