function foo(): (
	nil -- Some comment
)
	return nil
end

type X = (
	string,
	number -- testing
) -> (
	number,
	string -- testing
)
