-- https://github.com/JohnnyMorganz/StyLua/issues/617
type Table = {
	{
		Key -- [1]: Key
		| Translations -- [2]: Translations
		| Tags -- [3]: Tags
	}
}
