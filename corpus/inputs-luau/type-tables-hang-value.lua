-- https://github.com/JohnnyMorganz/StyLua/issues/394
export type DehydratedData = {
	cleaned: Array<Array<string | number>>,
	data: string | Dehydrated | Unserializable | Array<Dehydrated> | Array<Unserializable> | { [string]: string | Dehydrated | Unserializable },
	unserializable: Array<Array<string | number>>,
}
