function foo(args: {
	id: string,
	fenderer: SubBassGuitar,
	fendererInterface: BasGuitarInterface,
})
	print("foo")
end

function foo(args: {
	id: string,
	fenderer: SubBassGuitar,
	fendererInterface: BasGuitarInterface,
}, type: string)
	print("foo")
end

local subs = {
	amps.sub("fenderer-nations", function(
		args: {
		id: string,
		fenderer: SubBassGuitar,
		fendererInterface: BasGuitarInterface,
	}
	)
		print("test")
	end),
}
