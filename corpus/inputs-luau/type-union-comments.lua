-- https://github.com/JohnnyMorganz/StyLua/issues/351
export type ReactNode =
  React_Element<any>
  | ReactPortal
--   | ReactText
  | ReactFragment
--   | ReactProvider<any>
--   | ReactConsumer<any>
