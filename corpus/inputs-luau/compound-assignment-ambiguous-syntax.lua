-- https://github.com/JohnnyMorganz/StyLua/issues/885

local function foo()
    return { b = "foo" }
end

local a = foo();
(a :: any).b ..= "bar"