local scale = if someReallyLongFlagName() or someOtherReallyLongFlagName() then foo else bar

local scale = if someReallyLongFlagName() or someOtherReallyLongFlagName() then foooooooooooooBarrrrrrrrr else barrrrrrrrrBazzzzzz

local scale = if someReallyLongFlagName() or someOtherReallyLongFlagName() then Vector2.new(1, 1) + someVectorOffset + someOtherVector else Vector2.new(1, 1) + someNewVectorOffset + someNewOtherVector

local scale = if someReallyReallyLongFunctionNameThatForcesTheConditionToSpanMultipleLines() and someOtherReallyLongFunctionNameThatForcesTheConditionToSpanMultipleLines() then 1 else 2

local thing = makeSomething("Foo", {
	OneChild = if someFlag() then
		makeSomething("Bar", {
			scale = 1,
		})
	else
		makeSomething("Bar", {
			scale = 2,
		}),
	TwoChild = makeSomething("Baz"),
})

local thing = makeSomething("Foo", {
	OneChild = if someFlag() then makeSomething("Bar", {
		scale = 1,
	}) else makeSomething("Bar", {
		scale = 2,
	}),
	TwoChild = makeSomething("Baz"),
})

local state = if hook ~= nil then hook.memoizedState elseif typeof(initialState) == "function" then (initialState :: (() -> S))() else initialState

local scale = if someFlag() then 1 elseif someOtherFlag() then 0.5 else 2

local thing = makeSomething("Foo", {
	OneChild = if someFlag()
		then makeSomething("Bar", {
			scale = 1,
		})
		elseif someOtherFlag() then makeSomething("Bar", {
			scale = 0.5,
		})
		else makeSomething("Bar", {
			scale = 2,
		}),
	TwoChild = makeSomething("Baz"),
})
do
	do
	  do
		do
		  console.error(
			"guitarFuzz design functions accept exactly two parameters: guiter and fuzz. %s",
			if argumentCount == 1 then "Did you forget to use the fuzz parameter?" else "Any additional parameter will be undefined."
		  )
		end
	  end
  end
end
