-- https://github.com/JohnnyMorganz/StyLua/issues/397

--[[opening type comment]]
type Doo<
	T --[[ per-generic argument comment]]
> =
	--[[ opening RHS comment]]
	string --[[ per-RHS comment]]

type Foo<T = --[[leading]]
string
--[[trailing]]> = { baz: T, }

type Bar<T
--[[ Trailing comment ]]> = {}

-- This is a comment before
type Foo = --[[ Comment before Bar ]]
Bar<--[[ Before X ]]
X, --[[ After X ]]
--[[ Before Y ]]
Y, --[[ After Y ]]
--[[ Before Z ]]
Z
--[[ After Z ]]> -- This is a comment after

--[[comment]]
type Doo
--[[comment]]
<
--[[comment]]
T
--[[comment]]
>
--[[comment]]
=
--[[comment]]
string
--[[comment]]
