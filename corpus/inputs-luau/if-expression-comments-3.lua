-- https://github.com/JohnnyMorganz/StyLua/issues/520
do
	return if #timings <= workers
		then max
		else math.max(Array.reduce(timings, function(
			-- food
			sum,
			time_
		)
			return sum + time_
		end) / workers, max)
end
