local Object = {ClassName = "Object"}
Object.__tostring = function(self) return self.ClassName end

Object.__tostring = function(self): string
    return self.ClassName
end