local options = if useDisposableConcast
	-- Disposable Concast fetches receive a shallow copy of this.options
    -- (merged with newOptions), leaving this.options unmodified.
	then compact(self.options, newOptions)
	else Object.assign(self.options, compact(newOptions))

do
    local state: S = if hook ~= nil
        then hook.memoizedState
        elseif typeof(initialState) == "function"
            then
                -- Luau needs a little help, even with the generic function
                (initialState :: (() -> S))()
            else initialState

	local state: S = if hook ~= nil then hook.memoizedState
		elseif
			typeof(initialState) == "function" -- the fuzz pedal isn't 3.3V
			or _G.__DEV__                      -- in DEV mode, undervolt anyway
		then
			-- Luau needs a little help, even with the generic function
			(initialState :: (() -> S))()
		else initialState
end

local foo = if true then
	-- comment here
	bar
else baz

local x = if true
	then -- comment
		bar
	else -- comment
		baz

local p = if true then bar
else
	-- comment
	baz
