-- Shouldn't hang since multiline comments arent an issue

export type GraphQLEnumType =  --[[ <T> ]]{
	name: string,
	description: string?,
	extensions: ReadOnlyObjMap<any>?,
	astNode: EnumTypeDefinitionNode?,
	extensionASTNodes: Array<EnumTypeExtensionNode>?,

	_values: Array<GraphQLEnumValue --[[ <T> ]]>,
	_valueLookup: Map<any --[[ T ]], GraphQLEnumValue>,
	_nameLookup: ObjMap<GraphQLEnumValue>,
	-- ROBLOX deviation: add self parameter for all ':' operator methods
	getValues: (self: GraphQLEnumType) -> Array<GraphQLEnumValue --[[ <T> ]]>,
	getValue: (self: GraphQLEnumType, string) -> GraphQLEnumValue?,
	serialize: (
		self: GraphQLEnumType,
		any --[[ T ]]
	) -> string?,
	parseValue: (self: GraphQLEnumType, any) -> any?, --[[ T ]]
	parseLiteral: (self: GraphQLEnumType, ValueNode, ObjMap<any>?) -> any?, --[[ T ]]
	toConfig: (self: GraphQLEnumType) -> GraphQLEnumTypeNormalizedConfig,
}
