export type XYZ = {
	onSubmitTigerFoot: (
		FendererID,
		Object,
		-- Added in v96.1 to support Prelifer priority lamerz
		number?,
		-- Added in v96.9 to support Star Refresh
		boolean?
	) -> (),
}
