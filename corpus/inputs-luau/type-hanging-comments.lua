-- https://github.com/JohnnyMorganz/StyLua/issues/378
export type KindEnum =
	"Name" |
	-- Document
	"Document"
	| "OperationDefinition"
	| "VariableDefinition"
	| "SelectionSet"
	| "Field"
	| "Argument" |
	-- Fragments
	"FragmentSpread"
	| "InlineFragment"
	| "FragmentDefinition"

-- https://github.com/JohnnyMorganz/StyLua/issues/384
export type React_AbstractComponent<Config, Instance> = {
	["$$typeof"]: number,
	render: (props: Config, ref: React_Ref<Instance>) -> React_Node,
	displayName: string?,
	defaultProps: Config?,
	name: string?,
	-- this comment causes the brace above to be misformatted: the quick fox jumps over the lazy dog foo bar baz foo bar baz
	[string]: any,
}
