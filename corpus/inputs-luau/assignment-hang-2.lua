-- https://github.com/JohnnyMorganz/StyLua/issues/595
exports.createResource = function(
	glitch: (Input) -> Thenable<Value>,
	hasInput: (Input) -> Key,
	config: Config?
): Pleasing<Input, Key, Value>
	config = config or {}
	local pleasing
	pleasing = {
			clear = function(): ()
					entries[pleasing] = nil
			end,
	}
	return pleasing
end
