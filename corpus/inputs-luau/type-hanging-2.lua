-- https://github.com/JohnnyMorganz/StyLua/issues/372
export type Visitor<KindToNode, Nodes = any> =
       EnterLeave<
               VisitFn<Nodes>
               | ShapeMap<KindToNode, <Node>(Node) -> VisitFn<Nodes, Node>>
       >
       | ShapeMap<
               KindToNode,
               <Node>(Node) -> VisitFn<Nodes, Node> | EnterLeave<VisitFn<Nodes, Node>>>
