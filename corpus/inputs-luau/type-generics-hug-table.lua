-- https://github.com/JohnnyMorganz/StyLua/issues/442
export type Store = EventEmitter<{
	collapseNodesByDefault: Array<any>,
	componentFilters: Array<any>,
	mutated: Array<any>, -- ROBLOX deviation: can't express jagged array types in Luau
	recordChangeDescriptions: Array<any>,
	roots: Array<any>,
	supportsNativeStyleEditor: Array<any>,
	supportsProfiling: Array<any>,
	supportsReloadAndProfile: Array<any>,
	unsupportedRendererVersionDetected: Array<any>,
}>
