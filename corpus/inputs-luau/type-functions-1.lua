type function Foo(x)
end

export type function Foo(x)
end
