local x = `{ {1} }`
