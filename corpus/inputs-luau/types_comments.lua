export type IntrospectionNamedTypeRef<
  T, -- TODO: add generic constraints and default types: IntrospectionType = IntrospectionType,
  P
> = {
  kind: any, -- deviation: add this type spec later: $PropertyType<T, 'kind'>,
  name: string,
  ofType: T -- TODO: this field is missing
}

export type ReactScopeQuery = (
	string, -- type
	{ [any]: any }, -- props
	any -- instance
) -> boolean

export type Thenable<R> = {
	andThen: <U>(
		self: Thenable<R>,
		onFulfill: (R) -> () | _Thenable<U> | U,
		onReject: (error: any) -> () | _Thenable<U> | U
	-- note: need union type packs to parse () | Thenable<U>
	) -> nil | _Thenable<U>,
}
