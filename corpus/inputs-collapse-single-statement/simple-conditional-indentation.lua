for i = 1, 10 do
	if true then
		return
	end
end
