T['stat_summary()']['works'] = function()
	eq(stat_summary(10, 4, 3, 2, 1), { minimum = 1, mean = 4, median = 3, maximum = 10, n = 5, sd = math.sqrt(50 / 4) })
end
