local erroring = function(x)
  return function()
    error(x, 0)
  end
end
