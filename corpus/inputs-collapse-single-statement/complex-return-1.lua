local x = function(body, opts)
    return {
      top = body.top - 1,
      bottom = body.bottom + 1,
      indent = math.max(H.get_line_indent(body.top - 1, opts), H.get_line_indent(body.bottom + 1, opts)),
    }
end
