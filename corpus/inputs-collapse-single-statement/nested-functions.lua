local get_match = function(hl_group)
  return vim.tbl_filter(function(x)
    return x.group == hl_group
  end, child.fn.getmatches())
end
