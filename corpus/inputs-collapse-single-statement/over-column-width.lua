function MiniCompletion.default_process_items(items, base)
  return H.default_config.lsp_completion.process_items(items, base)
end
