-- https://github.com/JohnnyMorganz/StyLua/issues/744

if tabnr ~= finaltab then

	stack:push('%T')
end
