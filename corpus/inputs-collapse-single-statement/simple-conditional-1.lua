if x == true then
	return
end
