-- https://github.com/JohnnyMorganz/StyLua/issues/898

if bar then
	return function()
		foo()
	end
end

if bar then
	return Array.filter({}, function()
		return true
	end)
end
