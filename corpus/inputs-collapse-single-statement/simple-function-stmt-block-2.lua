local x = function()
	x = 1
end
