-- https://github.com/JohnnyMorganz/StyLua/issues/704
vim.api.nvim_create_user_command('F', function(options) require('greeeeeeeeeeeeeeeeeeeeep').by_fixed(options.args) end, {
	nargs = '+',
	complete = 'file',
  })
