function H.get_unsaved_listed_buffers()
  return vim.tbl_filter(function(buf_id)
    return vim.api.nvim_buf_get_option(buf_id, 'modified') and vim.api.nvim_buf_get_option(buf_id, 'buflisted')
  end, vim.api.nvim_list_bufs())
end
