function H.is_item(x)
  return type(x) == 'table'
    and H.is_fun_or_string(x['action'], false)
    and type(x['name']) == 'string'
    and type(x['section']) == 'string'
end
