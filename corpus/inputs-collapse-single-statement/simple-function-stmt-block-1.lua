local x = function()
	call("testing")
end
