local _, tag_section = toc_entry.parent:has_descendant(function(x)
  return type(x) == 'table' and x.type == 'section' and x.info.id == '@tag'
end)
