Helpers.expect.match = MiniTest.new_expectation('string matching', function(str, pattern)
  return str:find(pattern) ~= nil
end, function(str, pattern)
  return string.format('Pattern: %s\nObserved string: %s', vim.inspect(pattern), str)
end)
