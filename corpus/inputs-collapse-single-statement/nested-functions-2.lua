local x = function()
	return (function()
		local z = 3 + 4
		return complexCall(z)
	end)
end

local x = function()
	return (function()
		local z = 3 + 4
		return complexCall(z)
	end)()
end

local x = function()
	return not (function()
		local z = 3 + 4
		return complexCall(z)
	end)()
end

local x = function()
	return { function() return true end }
end

local x = function()
	return { [(function() return false end)()] = true }
end

local x = function()
	return call "string"
end

local x = function()
	return call { function() end }
end

local x = function()
	(function() return x[5] end)[10] = 5
end

local x = function()
	y[function() end] = z
end

local x = function()
	break
end
