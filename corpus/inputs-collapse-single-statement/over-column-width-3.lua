-- https://github.com/JohnnyMorganz/StyLua/issues/619
local a = {
	aa = function() return "xxxxxxxxxxxxxxxxxxxxxxxxxxxxxxxxxxxxxxxxxxxxxxxxxxxxxxxxxxxxxxxxxxxxxxxxxxxxxxxxxxxxxxxxxxxxxxxxxx" end,
}
