local comment_parts = vim.tbl_filter(function(x)
   return x ~= ''
end, vim.split(commentstring, '%s', true))
