if child == nil then
    child, index = index, #self + 1
end
