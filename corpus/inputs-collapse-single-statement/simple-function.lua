function foo()
    return bar
end

