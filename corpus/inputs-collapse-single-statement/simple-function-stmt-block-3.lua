local x = function()
	local x = 1
end
