if true then
	call("hello")
end
