local a <const> = 5
local d <close>
local e <const>, f <close> = 1, 2
local g <const>, h <close>
local i <const>, j, k <close>
