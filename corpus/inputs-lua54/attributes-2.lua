local a <attribute_with_random_name> = 1
