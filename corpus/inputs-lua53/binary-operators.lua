local a = 1 & 2
local b = 1 | 2
local c = 1 << 2
local d = 1 >> 2
local e = 1 ~ 2
local f = 1 // 2
