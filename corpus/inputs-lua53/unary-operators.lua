local x = ~1
