local x
something((x))

local x = (1 + 2) * 3
local y = ((1) * 3)
local z = (...) == nil and foo or bar
local foo = not (bar and baz)
local bar = (#bar) and baz
local cond = condition and (not object or object.Value == y)
local baz = (-4 + 3) * 2

({}):foo();
("hello"):format()

function x()
	return 1, 2
end

print(x())
print((x()))
print(((x())))

path = (function()
  return true
end)()

-- The following should have parentheses removed, but if they were a Prefix, they wouldn't be removed
local x = ({})
local y = ("hello")
local z = (function()
	return true
end)
