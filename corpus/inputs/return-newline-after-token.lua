-- https://github.com/JohnnyMorganz/StyLua/issues/605
function foo()
	return
		delta.tag == Band or
		delta.tag == Drum or
		delta.tag == Bass
end

function foo()
	return
		delta.tag == Band or
		delta.tag == Drum or
		delta.tag == Bass or
		delta.tag == Lol or
		delta.tag == Hello or
		delta.tag == Drum or
		delta.tag == Bass
end
