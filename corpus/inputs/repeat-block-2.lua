local function foo(bar)
	local count = 0

	repeat
		count = count + 1
	until count == 10
end