local foo = x ^ -- comment
	y % -- comment
	z - -- comment
	a <= -- comment
	b < -- comment
	c >= -- comment
	d
