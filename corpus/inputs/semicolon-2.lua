-- https://github.com/JohnnyMorganz/StyLua/issues/431
local Packages; --[[ ROBLOX comment: must define Packages module ]]
local boo = --[[a comment]]
require(Packages.foo)
--[[another comment]];
--[[yet another comment]]
