a = {
	key1 = string.format("test", "test", "test", "test", "test", "test", "test", "test", "test", "test", variable_names),
	key2 = string.format("test", "test", "test", "test", "test", "test", "test", "test", "test", "test", variable_names),
}
