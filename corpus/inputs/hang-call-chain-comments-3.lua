-- https://github.com/JohnnyMorganz/StyLua/issues/890

build(): -- comment
init():start()