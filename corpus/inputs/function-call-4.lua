Roact.createElement("ImageLabel", {
	Size = UDim2.new(
		0,
		TextService:GetTextSize(self.props.PhysicalTool.Name, 16, Enum.Font.SourceSansBold, Vector2.new(100000, 100000)).X
			+ 10,
		0,
		20
	),
})