local foo = 'this \'string\' has \'escaped\' single quotes with "double quotes"'
local bar = "test \'foo\' \"bar\""
local baz = '\\"""'