do
	local region = Region3.new(part.Position - (0.5 * part.Size), part.Position + (0.5 * part.Size))

	do
		do
			return function(...)
				callback(LOG_FORMAT:format(os.date("%H:%M:%S"), key, level, fmt.fmt(...)))
			end
		end
	end

	self.digits = math.ceil(math.log10(math.max(math.abs(self.props.maxValue), math.abs(self.props.minValue))))
end

local gamemodes, keysById, idsByKey = createDataIndex(script.AllGamemodes, validateGamemodeSchema)

HealthRegen.ValidateInstance = t.intersection(ComponentUtil.HasComponentValidator("Health"), ComponentUtil.HasComponentValidator("Target"))