React.createElement("span", { key = id }, React.createElement(Consumer, nil, function()
	return React.createElement("span", nil, "inner")
end), React.createElement("span", nil, "outer"))