-- A
a = A()

-- B
.B()

-- C
.C()
