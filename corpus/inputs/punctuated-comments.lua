-- https://github.com/JohnnyMorganz/StyLua/issues/637
function foo()
	return function()
		local x = 1
	end,
	-- comment
	function(newScan)
		scan = newScan
	end
end

function foo()
	local x = function()
		local x = 1
	end,
	-- comment
	function(newScan)
		scan = newScan
	end
end

function foo()
	return function()
		local x = 1
	end,

	-- comment
	function(newScan)
		scan = newScan
	end
end

function foo()
	local x = function()
		local x = 1
	end,

	-- comment
	function(newScan)
		scan = newScan
	end
end

