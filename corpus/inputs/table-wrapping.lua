local foo = {
    {"foobarbazfoobarbaz", "foobarbazfoobarbaz"},
    {"foobarbazfoobarbaz", "foobarbazfoobarbaz"},
    {"foobarbazfoobarbaz", "foobarbazfoobarbaz"},
    {"foobarbazfoobarbaz", "foobarbazfoobarbaz"}
}