-- https://github.com/JohnnyMorganz/StyLua/issues/416
local variable = call(somethingToCall().foo.bar.baz, "some super long string that will stay on this line aaaaaaaaaaaaaaaaa") -- a comment
	.. "another string"
