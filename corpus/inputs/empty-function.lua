local function noop() end

function noop() end

call(function() end)