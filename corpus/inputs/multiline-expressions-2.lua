if not (one and two and three and not (four and five) and six and not (seven and eight and nine and ten and eleven and twelve and thirteen and fourteen and fifteen and sixteen and seventeen)) then
	print("foo")
end

local longString = foo(
	"We are wrapping this %s " .. "onto multiple lines " .. "for ease of editing and %d readability" .. "and I continue to extend this string" .. "so it can wrap even further",
	myStringVar,
	myNumberVar
)

return node.kind == Kind.VARIABLE
  or node.kind == Kind.INT
  or node.kind == Kind.FLOAT
  or node.kind == Kind.STRING
  or node.kind == Kind.BOOLEAN
  or node.kind == Kind.NULL
  or node.kind == Kind.ENUM
  or node.kind == Kind.LIST
  or node.kind == Kind.OBJECT