-- https://github.com/JohnnyMorganz/StyLua/issues/830
local a_very_long_variable_name_given_that_is_bigger_than_width_upper_limit_but_unfortunately_can_not_be_made_shorter = function()
	print("Hello")
end
