-- https://github.com/JohnnyMorganz/StyLua/issues/318
local a = {
	b = -- equals trailing comment
		foo(),
	c -- key trailing comment
		= bar(),
	-- expression leading comment
	"d",
	-- key leading comment
	e -- key trailing comment
	-- equals leading comment
	= -- equals trailing comment
	baz(),


	["f"] = -- equals trailing comment
		foo(),
	["g"] -- key trailing comment
		= bar(),
	-- key leading comment
	["h"] -- key trailing comment
	-- equals leading comment
	= -- equals trailing comment
	baz(),
}

local b = {
    b =  -- a comment breaks it
    {
        c = "d",
    },
}

local c = {
	-- comment group 1
	-- part of this group

	-- another comment group
	-- dont group with the above comment group
	x = y
}
