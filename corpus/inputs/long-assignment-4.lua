do
	do
		local FrontDistanceX, FrontDistanceY =
			self.settings.FWsBoneLen * math.cos(math.rad(self.settings.FWsBoneAngle)),
			self.settings.FWsBoneLen * math.sin(math.rad(self.settings.FWsBoneAngle))
	end
end
