local foooooooooooooo = { "barrrrrrrrrrrrrrrrrrrrrrrrrrrrrrrrrrrrrrrrrrrrrrrrrrrrrrrrrrrrrrrrrrrrrrrrrrrrrrrrrrrrrrrrrrrrrrrrrrrrrrrrrrrrr" .. "bazzzzzzzzzzzzzzzzzzzzzzzzzzzzzzzzzzzzzzzzzzzzzzzzzzzzzzzzzzz"}

local barrrrrrrrrrrrr = { foooooooooooooooooo = "barrrrrrrrrrrrrrrrrrrrrrrrrrrrrrrrrrrrrrrrrrrrrrr" .. "bazzzzzzzzzzzzzzzzzzzzzzzzzzzzzzzzzzzzzzzzzzzzzzzzzzzzzzzz"}

local bazzzzzzzzzzzzzz = { [foo()] = "barrrrrrrrrrrrrrrrrrrrrrrrrrrrrrrrrrrrrrrrrrrrrrr" .. "bazzzzzzzzzzzzzzzzzzzzzzzzzzzzzzzzzzzzzzzzzzzzzzzzzzzzzzzzzzzzzzzzzzzzzz"}