do
	do
		local CreatedDirection = (
			DirectionalCF * CFrame.fromOrientation(0, 0, RNG:NextNumber(0, TAU)) * CFrame.fromOrientation(
				math.rad(RNG:NextNumber(
					GunMainConfiguration.BulletMinSpreadAngle or GlobalConfiguration.DEFAULT_MIN_SPREAD_ANGLE,
					GunMainConfiguration.BulletMaxSpreadAngle or GlobalConfiguration.DEFAULT_MAX_SPREAD_ANGLE
				)),
				0,
				0
			)
		).LookVector
	end
end

		