local AppRodux = RoactRodux.connect(
	function(state, props)
		return {
			
		}
	end
	-- function(dispatch)
	--   return {
	--     setCrossSize = function(crossSize)
	--       dispatch({
	--         type = "SetCrossSize",
	--         crossSize = crossSize
	--       })
	--     end
	--   }
	-- end
)(AppComponent)