-- https://github.com/JohnnyMorganz/StyLua/issues/292
local musicId, musicTime, responseTick, responseOffset = remotes.Server.GetSpectatorInfo:InvokeServer(player, sendTick, anotherArgument)
