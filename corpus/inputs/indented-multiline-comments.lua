function foo()
    function bar()
        function baz()
            --[[
                comment
            ]]
            local x = 1
        end
    end
end