local foo = a <= b --[[ some block comment ]]; -- inline comment
fn() --[[ some block comment 2 ]]; -- inline comment 2
