-- https://github.com/JohnnyMorganz/StyLua/issues/778
-- comments should stay before punctuation to ensure type assertions work in sumneko-lua

function fun(
	a --[[ a commnet]],
	b
)
end

local tab = {
	a = 1 --[[@as integer ]],
	b = 1,
}

call(
	long_argument_name --[[@as integer ]],
	long_argument_name,
	long_argument_name,
	long_argument_name,
	long_argument_name
)
