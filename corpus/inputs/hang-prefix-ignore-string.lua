-- https://github.com/JohnnyMorganz/StyLua/issues/508
exports.ScalarLeafsRule = function(context)
	return {
			Field = function(_self, node)
					if type_ then
							if not selectionSet then
									context:reportError(
											GraphQLError.new(
													('Field "%s" of type "%s" must have a selection of subfields. Did you mean "%s { ... }"?'):format(
															fieldName,
															typeStr,
															fieldName
													),
													node
											)
									)
							end
					end
			end,
	}
end
