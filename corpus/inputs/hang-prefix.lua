("foooooooooooooooooooooooooooooooooooooooooooooooooooooooooooooooo" .. "barrrrrrrrrrrrrrrrrrrrrrrrrrrrrrrrrrrrrrrrrrrrrrr"):format()

do
	("foooooooooooooooooooooooooooooooooooooooooooooooooooooooooooooooo" .. "barrrrrrrrrrrrrrrrrrrrrrrrrrrrrrrrrrrrrrrrrrrrrrr"):format()
end

print(("foooooooooooooooooooooooooooooooooooooooooooooooooooooooooooooooo" .. "barrrrrrrrrrrrrrrrrrrrrrrrrrrrrrrrrrrrrrrrrrrrrrr"):format())