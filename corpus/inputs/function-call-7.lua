-- https://github.com/JohnnyMorganz/StyLua/issues/298
do
	return Roact.createElement(StyleContext.Provider, {
		value = styleObject,
	}, Roact.oneChild(self.props[Roact.Children]))
end
