--[[
	Taken from: https://github.com/evaera/roblox-lua-promise

	MIT License

	Copyright (c) 2019 Eryn L. K.

	Permission is hereby granted, free of charge, to any person obtaining a copy
	of this software and associated documentation files (the "Software"), to deal
	in the Software without restriction, including without limitation the rights
	to use, copy, modify, merge, publish, distribute, sublicense, and/or sell
	copies of the Software, and to permit persons to whom the Software is
	furnished to do so, subject to the following conditions:

	The above copyright notice and this permission notice shall be included in all
	copies or substantial portions of the Software.

	THE SOFTWARE IS PROVIDED "AS IS", WITHOUT WARRANTY OF ANY KIND, EXPRESS OR
	IMPLIED, INCLUDING BUT NOT LIMITED TO THE WARRANTIES OF MERCHANTABILITY,
	FITNESS FOR A PARTICULAR PURPOSE AND NONINFRINGEMENT. IN NO EVENT SHALL THE
	AUTHORS OR COPYRIGHT HOLDERS BE LIABLE FOR ANY CLAIM, DAMAGES OR OTHER
	LIABILITY, WHETHER IN AN ACTION OF CONTRACT, TORT OR OTHERWISE, ARISING FROM,
	OUT OF OR IN CONNECTION WITH THE SOFTWARE OR THE USE OR OTHER DEALINGS IN THE
	SOFTWARE.

	An implementation of Promises similar to Promise/A+.
]]

local ERROR_NON_PROMISE_IN_LIST = "Non-promise value passed into %s at index %s"
local ERROR_NON_LIST = "Please pass a list of promises to %s"
local ERROR_NON_FUNCTION = "Please pass a handler function to %s!"
local MODE_KEY_METATABLE = {__mode = "k"}

--[[
	Creates an enum dictionary with some metamethods to prevent common mistakes.
]]
local function makeEnum(enumName, members)
	local enum = {}

	for _, memberName in ipairs(members) do
		enum[memberName] = memberName
	end

	return setmetatable(enum, {
		__index = function(_, k)
			error(string.format("%s is not in %s!", k, enumName), 2)
		end,
		__newindex = function()
			error(string.format("Creating new members in %s is not allowed!", enumName), 2)
		end,
	})
end

--[[
	An object to represent runtime errors that occur during execution.
	Promises that experience an error like this will be rejected with
	an instance of this object.
]]
local Error do
	Error = {
		Kind = makeEnum("Promise.Error.Kind", {
			"ExecutionError",
			"AlreadyCancelled",
			"NotResolvedInTime",
			"TimedOut",
		}),
	}
	Error.__index = Error

	function Error.new(options, parent)
		options = options or {}
		return setmetatable({
			error = tostring(options.error) or "[This error has no error text.]",
			trace = options.trace,
			context = options.context,
			kind = options.kind,
			parent = parent,
			createdTick = os.clock(),
			createdTrace = debug.traceback(),
		}, Error)
	end

	function Error.is(anything)
		if type(anything) == "table" then
			local metatable = getmetatable(anything)

			if type(metatable) == "table" then
				return rawget(anything, "error") ~= nil and type(rawget(metatable, "extend")) == "function"
			end
		end

		return false
	end

	function Error.isKind(anything, kind)
		assert(kind ~= nil, "Argument #2 to Promise.Error.isKind must not be nil")

		return Error.is(anything) and anything.kind == kind
	end

	function Error:extend(options)
		options = options or {}

		options.kind = options.kind or self.kind

		return Error.new(options, self)
	end

	function Error:getErrorChain()
		local runtimeErrors = { self }

		while runtimeErrors[#runtimeErrors].parent do
			table.insert(runtimeErrors, runtimeErrors[#runtimeErrors].parent)
		end

		return runtimeErrors
	end

	function Error:__tostring()
		local errorStrings = {
			string.format("-- Promise.Error(%s) --", self.kind or "?"),
		}

		for _, runtimeError in ipairs(self:getErrorChain()) do
			table.insert(errorStrings, table.concat({
				runtimeError.trace or runtimeError.error,
				runtimeError.context,
			}, "\n"))
		end

		return table.concat(errorStrings, "\n")
	end
end

--[[
	Packs a number of arguments into a table and returns its length.

	Used to cajole varargs without dropping sparse values.
]]
local function pack(...)
	return select("#", ...), { ... }
end

--[[
	Returns first value (success), and packs all following values.
]]
local function packResult(success, ...)
	return success, select("#", ...), { ... }
end


local function makeErrorHandler(traceback)
	assert(traceback ~= nil)

	return function(err)
		-- If the error object is already a table, forward it directly.
		-- Should we extend the error here and add our own trace?

		if type(err) == "table" then
			return err
		end

		return Error.new({
			error = err,
			kind = Error.Kind.ExecutionError,
			trace = debug.traceback(tostring(err), 2),
			context = "Promise created at:\n\n" .. traceback,
		})
	end
end

--[[
	Calls a Promise executor with error handling.
]]
local function runExecutor(traceback, callback, ...)
	return packResult(xpcall(callback, makeErrorHandler(traceback), ...))
end

--[[
	Creates a function that invokes a callback with correct error handling and
	resolution mechanisms.
]]
local function createAdvancer(traceback, callback, resolve, reject)
	return function(...)
		local ok, resultLength, result = runExecutor(traceback, callback, ...)

		if ok then
			resolve(unpack(result, 1, resultLength))
		else
			reject(result[1])
		end
	end
end

local function isEmpty(t)
	return next(t) == nil
end

local Promise = {
	Error = Error,
	Status = makeEnum("Promise.Status", {"Started", "Resolved", "Rejected", "Cancelled"}),
	_getTime = os.clock,
	_timeEvent = game:GetService("RunService").Heartbeat,
}
Promise.prototype = {}
Promise.__index = Promise.prototype

--[[
	Constructs a new Promise with the given initializing callback.

	This is generally only called when directly wrapping a non-promise API into
	a promise-based version.

	The callback will receive 'resolve' and 'reject' methods, used to start
	invoking the promise chain.

	Second parameter, parent, is used internally for tracking the "parent" in a
	promise chain. External code shouldn't need to worry about this.
]]
function Promise._new(traceback, callback, parent)
	if parent ~= nil and not Promise.is(parent) then
		error("Argument #2 to Promise.new must be a promise or nil", 2)
	end

	local self = {
		-- Used to locate where a promise was created
		_source = traceback,

		_status = Promise.Status.Started,

		-- A table containing a list of all results, whether success or failure.
		-- Only valid if _status is set to something besides Started
		_values = nil,

		-- Lua doesn't like sparse arrays very much, so we explicitly store the
		-- length of _values to handle middle nils.
		_valuesLength = -1,

		-- Tracks if this Promise has no error observers..
		_unhandledRejection = true,

		-- Queues representing functions we should invoke when we update!
		_queuedResolve = {},
		_queuedReject = {},
		_queuedFinally = {},

		-- The function to run when/if this promise is cancelled.
		_cancellationHook = nil,

		-- The "parent" of this promise in a promise chain. Required for
		-- cancellation propagation upstream.
		_parent = parent,

		-- Consumers are Promises that have chained onto this one.
		-- We track them for cancellation propagation downstream.
		_consumers = setmetatable({}, MODE_KEY_METATABLE),
	}

	if parent and parent._status == Promise.Status.Started then
		parent._consumers[self] = true
	end

	setmetatable(self, Promise)

	local function resolve(...)
		self:_resolve(...)
	end

	local function reject(...)
		self:_reject(...)
	end

	local function onCancel(cancellationHook)
		if cancellationHook then
			if self._status == Promise.Status.Cancelled then
				cancellationHook()
			else
				self._cancellationHook = cancellationHook
			end
		end

		return self._status == Promise.Status.Cancelled
	end

	coroutine.wrap(function()
		local ok, _, result = runExecutor(
			self._source,
			callback,
			resolve,
			reject,
			onCancel
		)

		if not ok then
			reject(result[1])
		end
	end)()

	return self
end

function Promise.new(executor)
	return Promise._new(debug.traceback(nil, 2), executor)
end

function Promise:__tostring()
	return string.format("Promise(%s)", self:getStatus())
end

--[[
	Promise.new, except pcall on a new thread is automatic.
]]
function Promise.defer(callback)
	local traceback = debug.traceback(nil, 2)
	local promise
	promise = Promise._new(traceback, function(resolve, reject, onCancel)
		local connection
		connection = Promise._timeEvent:Connect(function()
			connection:Disconnect()
			local ok, _, result = runExecutor(traceback, callback, resolve, reject, onCancel)

			if not ok then
				reject(result[1])
			end
		end)
	end)

	return promise
end

-- Backwards compatibility
Promise.async = Promise.defer

--[[
	Create a promise that represents the immediately resolved value.
]]
function Promise.resolve(...)
	local length, values = pack(...)
	return Promise._new(debug.traceback(nil, 2), function(resolve)
		resolve(unpack(values, 1, length))
	end)
end

--[[
	Create a promise that represents the immediately rejected value.
]]
function Promise.reject(...)
	local length, values = pack(...)
	return Promise._new(debug.traceback(nil, 2), function(_, reject)
		reject(unpack(values, 1, length))
	end)
end

--[[
	Runs a non-promise-returning function as a Promise with the
  given arguments.
]]
function Promise._try(traceback, callback, ...)
	local valuesLength, values = pack(...)

	return Promise._new(traceback, function(resolve)
		resolve(callback(unpack(values, 1, valuesLength)))
	end)
end

--[[
	Begins a Promise chain, turning synchronous errors into rejections.
]]
function Promise.try(...)
	return Promise._try(debug.traceback(nil, 2), ...)
end

--[[
	Returns a new promise that:
		* is resolved when all input promises resolve
		* is rejected if ANY input promises reject
]]
function Promise._all(traceback, promises, amount)
	if type(promises) ~= "table" then
		error(string.format(ERROR_NON_LIST, "Promise.all"), 3)
	end

	-- We need to check that each value is a promise here so that we can produce
	-- a proper error rather than a rejected promise with our error.
	for i, promise in pairs(promises) do
		if not Promise.is(promise) then
			error(string.format(ERROR_NON_PROMISE_IN_LIST, "Promise.all", tostring(i)), 3)
		end
	end

	-- If there are no values then return an already resolved promise.
	if #promises == 0 or amount == 0 then
		return Promise.resolve({})
	end

	return Promise._new(traceback, function(resolve, reject, onCancel)
		-- An array to contain our resolved values from the given promises.
		local resolvedValues = {}
		local newPromises = {}

		-- Keep a count of resolved promises because just checking the resolved
		-- values length wouldn't account for promises that resolve with nil.
		local resolvedCount = 0
		local rejectedCount = 0
		local done = false

		local function cancel()
			for _, promise in ipairs(newPromises) do
				promise:cancel()
			end
		end

		-- Called when a single value is resolved and resolves if all are done.
		local function resolveOne(i, ...)
			if done then
				return
			end

			resolvedCount = resolvedCount + 1

			if amount == nil then
				resolvedValues[i] = ...
			else
				resolvedValues[resolvedCount] = ...
			end

			if resolvedCount >= (amount or #promises) then
				done = true
				resolve(resolvedValues)
				cancel()
			end
		end

		onCancel(cancel)

		-- We can assume the values inside `promises` are all promises since we
		-- checked above.
		for i, promise in ipairs(promises) do
			newPromises[i] = promise:andThen(
				function(...)
					resolveOne(i, ...)
				end,
				function(...)
					rejectedCount = rejectedCount + 1

					if amount == nil or #promises - rejectedCount < amount then
						cancel()
						done = true

						reject(...)
					end
				end
			)
		end

		if done then
			cancel()
		end
	end)
end

function Promise.all(promises)
	return Promise._all(debug.traceback(nil, 2), promises)
end

function Promise.fold(list, callback, initialValue)
	assert(type(list) == "table", "Bad argument #1 to Promise.fold: must be a table")
	assert(type(callback) == "function", "Bad argument #2 to Promise.fold: must be a function")

	local accumulator = Promise.resolve(initialValue)
	return Promise.each(list, function(resolvedElement, i)
		accumulator = accumulator:andThen(function(previousValueResolved)
			return callback(previousValueResolved, resolvedElement, i)
		end)
	end):andThenReturn(accumulator)
end

function Promise.some(promises, amount)
	assert(type(amount) == "number", "Bad argument #2 to Promise.some: must be a number")

	return Promise._all(debug.traceback(nil, 2), promises, amount)
end

function Promise.any(promises)
	return Promise._all(debug.traceback(nil, 2), promises, 1):andThen(function(values)
		return values[1]
	end)
end

function Promise.allSettled(promises)
	if type(promises) ~= "table" then
		error(string.format(ERROR_NON_LIST, "Promise.allSettled"), 2)
	end

	-- We need to check that each value is a promise here so that we can produce
	-- a proper error rather than a rejected promise with our error.
	for i, promise in pairs(promises) do
		if not Promise.is(promise) then
			error(string.format(ERROR_NON_PROMISE_IN_LIST, "Promise.allSettled", tostring(i)), 2)
		end
	end

	-- If there are no values then return an already resolved promise.
	if #promises == 0 then
		return Promise.resolve({})
	end

	return Promise._new(debug.traceback(nil, 2), function(resolve, _, onCancel)
		-- An array to contain our resolved values from the given promises.
		local fates = {}
		local newPromises = {}

		-- Keep a count of resolved promises because just checking the resolved
		-- values length wouldn't account for promises that resolve with nil.
		local finishedCount = 0

		-- Called when a single value is resolved and resolves if all are done.
		local function resolveOne(i, ...)
			finishedCount = finishedCount + 1

			fates[i] = ...

			if finishedCount >= #promises then
				resolve(fates)
			end
		end

		onCancel(function()
			for _, promise in ipairs(newPromises) do
				promise:cancel()
			end
		end)

		-- We can assume the values inside `promises` are all promises since we
		-- checked above.
		for i, promise in ipairs(promises) do
			newPromises[i] = promise:finally(
				function(...)
					resolveOne(i, ...)
				end
			)
		end
	end)
end

--[[
	Races a set of Promises and returns the first one that resolves,
	cancelling the others.
]]
function Promise.race(promises)
	assert(type(promises) == "table", string.format(ERROR_NON_LIST, "Promise.race"))

	for i, promise in pairs(promises) do
		assert(Promise.is(promise), string.format(ERROR_NON_PROMISE_IN_LIST, "Promise.race", tostring(i)))
	end

	return Promise._new(debug.traceback(nil, 2), function(resolve, reject, onCancel)
		local newPromises = {}
		local finished = false

		local function cancel()
			for _, promise in ipairs(newPromises) do
				promise:cancel()
			end
		end

		local function finalize(callback)
			return function (...)
				cancel()
				finished = true
				return callback(...)
			end
		end

		if onCancel(finalize(reject)) then
			return
		end

		for i, promise in ipairs(promises) do
			newPromises[i] = promise:andThen(finalize(resolve), finalize(reject))
		end

		if finished then
			cancel()
		end
	end)
end

--[[
	Iterates serially over the given an array of values, calling the predicate callback on each before continuing.
	If the predicate returns a Promise, we wait for that Promise to resolve before continuing to the next item
	in the array. If the Promise the predicate returns rejects, the Promise from Promise.each is also rejected with
	the same value.

	Returns a Promise containing an array of the return values from the predicate for each item in the original list.
]]
function Promise.each(list, predicate)
	assert(type(list) == "table", string.format(ERROR_NON_LIST, "Promise.each"))
	assert(type(predicate) == "function", string.format(ERROR_NON_FUNCTION, "Promise.each"))

	return Promise._new(debug.traceback(nil, 2), function(resolve, reject, onCancel)
		local results = {}
		local promisesToCancel = {}

		local cancelled = false

		local function cancel()
			for _, promiseToCancel in ipairs(promisesToCancel) do
				promiseToCancel:cancel()
			end
		end

		onCancel(function()
			cancelled = true

			cancel()
		end)

		-- We need to preprocess the list of values and look for Promises.
		-- If we find some, we must register our andThen calls now, so that those Promises have a consumer
		-- from us registered. If we don't do this, those Promises might get cancelled by something else
		-- before we get to them in the series because it's not possible to tell that we plan to use it
		-- unless we indicate it here.

		local preprocessedList = {}

		for index, value in ipairs(list) do
			if Promise.is(value) then
				if value:getStatus() == Promise.Status.Cancelled then
					cancel()
					return reject(Error.new({
						error = "Promise is cancelled",
						kind = Error.Kind.AlreadyCancelled,
						context = string.format(
							"The Promise that was part of the array at index %d passed into Promise.each was already cancelled when Promise.each began.\n\nThat Promise was created at:\n\n%s",
							index,
							value._source
						),
					}))
				elseif value:getStatus() == Promise.Status.Rejected then
					cancel()
					return reject(select(2, value:await()))
				end

				-- Chain a new Promise from this one so we only cancel ours
				local ourPromise = value:andThen(function(...)
					return ...
				end)

				table.insert(promisesToCancel, ourPromise)
				preprocessedList[index] = ourPromise
			else
				preprocessedList[index] = value
			end
		end

		for index, value in ipairs(preprocessedList) do
			if Promise.is(value) then
				local success
				success, value = value:await()

				if not success then
					cancel()
					return reject(value)
				end
			end

			if cancelled then
				return
			end

			local predicatePromise = Promise.resolve(predicate(value, index))

			table.insert(promisesToCancel, predicatePromise)

			local success, result = predicatePromise:await()

			if not success then
				cancel()
				return reject(result)
			end

			results[index] = result
		end

		resolve(results)
	end)
end

--[[
	Is the given object a Promise instance?
]]
function Promise.is(object)
	if type(object) ~= "table" then
		return false
	end

	local objectMetatable = getmetatable(object)

	if objectMetatable == Promise then
		-- The Promise came from this library.
		return true
	elseif objectMetatable == nil then
		-- No metatable, but we should still chain onto tables with andThen methods
		return type(object.andThen) == "function"
	elseif
		type(objectMetatable) == "table"
		and type(rawget(objectMetatable, "__index")) == "table"
		and type(rawget(rawget(objectMetatable, "__index"), "andThen")) == "function"
	then
		-- Maybe this came from a different or older Promise library.
		return true
	end

	return false
end

--[[
	Converts a yielding function into a Promise-returning one.
]]
function Promise.promisify(callback)
	return function(...)
		return Promise._try(debug.traceback(nil, 2), callback, ...)
	end
end

--[[
	Creates a Promise that resolves after given number of seconds.
]]
do
	-- uses a sorted doubly linked list (queue) to achieve O(1) remove operations and O(n) for insert

	-- the initial node in the linked list
	local first
	local connection

	function Promise.delay(seconds)
		assert(type(seconds) == "number", "Bad argument #1 to Promise.delay, must be a number.")
		-- If seconds is -INF, INF, NaN, or less than 1 / 60, assume seconds is 1 / 60.
		-- This mirrors the behavior of wait()
		if not (seconds >= 1 / 60) or seconds == math.huge then
			seconds = 1 / 60
		end

		return Promise._new(debug.traceback(nil, 2), function(resolve, _, onCancel)
			local startTime = Promise._getTime()
			local endTime = startTime + seconds

			local node = {
				resolve = resolve,
				startTime = startTime,
				endTime = endTime,
			}

			if connection == nil then -- first is nil when connection is nil
				first = node
				connection = Promise._timeEvent:Connect(function()
					local threadStart = Promise._getTime()

					while first ~= nil and first.endTime < threadStart do
						local current = first
						first = current.next

						if first == nil then
							connection:Disconnect()
							connection = nil
						else
							first.previous = nil
						end

						current.resolve(Promise._getTime() - current.startTime)
					end
				end)
			else -- first is non-nil
				if first.endTime < endTime then -- if `node` should be placed after `first`
					-- we will insert `node` between `current` and `next`
					-- (i.e. after `current` if `next` is nil)
					local current = first
					local next = current.next

					while next ~= nil and next.endTime < endTime do
						current = next
						next = current.next
					end

					-- `current` must be non-nil, but `next` could be `nil` (i.e. last item in list)
					current.next = node
					node.previous = current

					if next ~= nil then
						node.next = next
						next.previous = node
					end
				else
					-- set `node` to `first`
					node.next = first
					first.previous = node
					first = node
				end
			end

			onCancel(function()
				-- remove node from queue
				local next = node.next

				if first == node then
					if next == nil then -- if `node` is the first and last
						connection:Disconnect()
						connection = nil
					else -- if `node` is `first` and not the last
						next.previous = nil
					end
					first = next
				else
					local previous = node.previous
					-- since `node` is not `first`, then we know `previous` is non-nil
					previous.next = next

					if next ~= nil then
						next.previous = previous
					end
				end
			end)
		end)
	end
end

--[[
	Rejects the promise after `seconds` seconds.
]]
function Promise.prototype:timeout(seconds, rejectionValue)
	local traceback = debug.traceback(nil, 2)

	return Promise.race({
		Promise.delay(seconds):andThen(function()
			return Promise.reject(rejectionValue == nil and Error.new({
				kind = Error.Kind.TimedOut,
				error = "Timed out",
				context = string.format(
					"Timeout of %d seconds exceeded.\n:timeout() called at:\n\n%s",
					seconds,
					traceback
				),
			}) or rejectionValue)
		end),
		self,
	})
end

function Promise.prototype:getStatus()
	return self._status
end

--[[
	Creates a new promise that receives the result of this promise.

	The given callbacks are invoked depending on that result.
]]
function Promise.prototype:_andThen(traceback, successHandler, failureHandler)
	self._unhandledRejection = false

	-- Create a new promise to follow this part of the chain
	return Promise._new(traceback, function(resolve, reject)
		-- Our default callbacks just pass values onto the next promise.
		-- This lets success and failure cascade correctly!

		local successCallback = resolve
		if successHandler then
			successCallback = createAdvancer(
				traceback,
				successHandler,
				resolve,
				reject
			)
		end

		local failureCallback = reject
		if failureHandler then
			failureCallback = createAdvancer(
				traceback,
				failureHandler,
				resolve,
				reject
			)
		end

		if self._status == Promise.Status.Started then
			-- If we haven't resolved yet, put ourselves into the queue
			table.insert(self._queuedResolve, successCallback)
			table.insert(self._queuedReject, failureCallback)
		elseif self._status == Promise.Status.Resolved then
			-- This promise has already resolved! Trigger success immediately.
			successCallback(unpack(self._values, 1, self._valuesLength))
		elseif self._status == Promise.Status.Rejected then
			-- This promise died a terrible death! Trigger failure immediately.
			failureCallback(unpack(self._values, 1, self._valuesLength))
		elseif self._status == Promise.Status.Cancelled then
			-- We don't want to call the success handler or the failure handler,
			-- we just reject this promise outright.
			reject(Error.new({
				error = "Promise is cancelled",
				kind = Error.Kind.AlreadyCancelled,
				context = "Promise created at\n\n" .. traceback,
			}))
		end
	end, self)
end

function Promise.prototype:andThen(successHandler, failureHandler)
	assert(
		successHandler == nil or type(successHandler) == "function",
		string.format(ERROR_NON_FUNCTION, "Promise:andThen")
	)
	assert(
		failureHandler == nil or type(failureHandler) == "function",
		string.format(ERROR_NON_FUNCTION, "Promise:andThen")
	)

	return self:_andThen(debug.traceback(nil, 2), successHandler, failureHandler)
end

--[[
	Used to catch any errors that may have occurred in the promise.
]]
function Promise.prototype:catch(failureCallback)
	assert(
		failureCallback == nil or type(failureCallback) == "function",
		string.format(ERROR_NON_FUNCTION, "Promise:catch")
	)
	return self:_andThen(debug.traceback(nil, 2), nil, failureCallback)
end

--[[
	Like andThen, but the value passed into the handler is also the
	value returned from the handler.
]]
function Promise.prototype:tap(tapCallback)
	assert(type(tapCallback) == "function", string.format(ERROR_NON_FUNCTION, "Promise:tap"))
	return self:_andThen(debug.traceback(nil, 2), function(...)
		local callbackReturn = tapCallback(...)

		if Promise.is(callbackReturn) then
			local length, values = pack(...)
			return callbackReturn:andThen(function()
				return unpack(values, 1, length)
			end)
		end

		return ...
	end)
end

--[[
	Calls a callback on `andThen` with specific arguments.
]]
function Promise.prototype:andThenCall(callback, ...)
	assert(type(callback) == "function", string.format(ERROR_NON_FUNCTION, "Promise:andThenCall"))
	local length, values = pack(...)
	return self:_andThen(debug.traceback(nil, 2), function()
		return callback(unpack(values, 1, length))
	end)
end

--[[
	Shorthand for an andThen handler that returns the given value.
]]
function Promise.prototype:andThenReturn(...)
	local length, values = pack(...)
	return self:_andThen(debug.traceback(nil, 2), function()
		return unpack(values, 1, length)
	end)
end

--[[
	Cancels the promise, disallowing it from rejecting or resolving, and calls
	the cancellation hook if provided.
]]
function Promise.prototype:cancel()
	if self._status ~= Promise.Status.Started then
		return
	end

	self._status = Promise.Status.Cancelled

	if self._cancellationHook then
		self._cancellationHook()
	end

	if self._parent then
		self._parent:_consumerCancelled(self)
	end

	for child in pairs(self._consumers) do
		child:cancel()
	end

	self:_finalize()
end

--[[
	Used to decrease the number of consumers by 1, and if there are no more,
	cancel this promise.
]]
function Promise.prototype:_consumerCancelled(consumer)
	if self._status ~= Promise.Status.Started then
		return
	end

	self._consumers[consumer] = nil

	if next(self._consumers) == nil then
		self:cancel()
	end
end

--[[
	Used to set a handler for when the promise resolves, rejects, or is
	cancelled. Returns a new promise chained from this promise.
]]
function Promise.prototype:_finally(traceback, finallyHandler, onlyOk)
	if not onlyOk then
		self._unhandledRejection = false
	end

	-- Return a promise chained off of this promise
	return Promise._new(traceback, function(resolve, reject)
		local finallyCallback = resolve
		if finallyHandler then
			finallyCallback = createAdvancer(
				traceback,
				finallyHandler,
				resolve,
				reject
			)
		end

		if onlyOk then
			local callback = finallyCallback
			finallyCallback = function(...)
				if self._status == Promise.Status.Rejected then
					return resolve(self)
				end

				return callback(...)
			end
		end

		if self._status == Promise.Status.Started then
			-- The promise is not settled, so queue this.
			table.insert(self._queuedFinally, finallyCallback)
		else
			-- The promise already settled or was cancelled, run the callback now.
			finallyCallback(self._status)
		end
	end, self)
end

function Promise.prototype:finally(finallyHandler)
	assert(
		finallyHandler == nil or type(finallyHandler) == "function",
		string.format(ERROR_NON_FUNCTION, "Promise:finally")
	)
	return self:_finally(debug.traceback(nil, 2), finallyHandler)
end

--[[
	Calls a callback on `finally` with specific arguments.
]]
function Promise.prototype:finallyCall(callback, ...)
	assert(type(callback) == "function", string.format(ERROR_NON_FUNCTION, "Promise:finallyCall"))
	local length, values = pack(...)
	return self:_finally(debug.traceback(nil, 2), function()
		return callback(unpack(values, 1, length))
	end)
end

--[[
	Shorthand for a finally handler that returns the given value.
]]
function Promise.prototype:finallyReturn(...)
	local length, values = pack(...)
	return self:_finally(debug.traceback(nil, 2), function()
		return unpack(values, 1, length)
	end)
end

--[[
	Similar to finally, except rejections are propagated through it.
]]
function Promise.prototype:done(finallyHandler)
	assert(
		finallyHandler == nil or type(finallyHandler) == "function",
		string.format(ERROR_NON_FUNCTION, "Promise:done")
	)
	return self:_finally(debug.traceback(nil, 2), finallyHandler, true)
end

--[[
	Calls a callback on `done` with specific arguments.
]]
function Promise.prototype:doneCall(callback, ...)
	assert(type(callback) == "function", string.format(ERROR_NON_FUNCTION, "Promise:doneCall"))
	local length, values = pack(...)
	return self:_finally(debug.traceback(nil, 2), function()
		return callback(unpack(values, 1, length))
	end, true)
end

--[[
	Shorthand for a done handler that returns the given value.
]]
function Promise.prototype:doneReturn(...)
	local length, values = pack(...)
	return self:_finally(debug.traceback(nil, 2), function()
		return unpack(values, 1, length)
	end, true)
end

--[[
	Yield until the promise is completed.

	This matches the execution model of normal Roblox functions.
]]
function Promise.prototype:awaitStatus()
	self._unhandledRejection = false

	if self._status == Promise.Status.Started then
		local bindable = Instance.new("BindableEvent")

		self:finally(function()
			bindable:Fire()
		end)

		bindable.Event:Wait()
		bindable:Destroy()
	end

	if self._status == Promise.Status.Resolved then
		return self._status, unpack(self._values, 1, self._valuesLength)
	elseif self._status == Promise.Status.Rejected then
		return self._status, unpack(self._values, 1, self._valuesLength)
	end

	return self._status
end

local function awaitHelper(status, ...)
	return status == Promise.Status.Resolved, ...
end

--[[
	Calls awaitStatus internally, returns (isResolved, values...)
]]
function Promise.prototype:await()
	return awaitHelper(self:awaitStatus())
end

local function expectHelper(status, ...)
	if status ~= Promise.Status.Resolved then
		error((...) == nil and "Expected Promise rejected with no value." or (...), 3)
	end

	return ...
end

--[[
	Calls await and only returns if the Promise resolves.
	Throws if the Promise rejects or gets cancelled.
]]
function Promise.prototype:expect()
	return expectHelper(self:awaitStatus())
end

-- Backwards compatibility
Promise.prototype.awaitValue = Promise.prototype.expect

--[[
	Intended for use in tests.

	Similar to await(), but instead of yielding if the promise is unresolved,
	_unwrap will throw. This indicates an assumption that a promise has
	resolved.
]]
function Promise.prototype:_unwrap()
	if self._status == Promise.Status.Started then
		error("Promise has not resolved or rejected.", 2)
	end

	local success = self._status == Promise.Status.Resolved

	return success, unpack(self._values, 1, self._valuesLength)
end

function Promise.prototype:_resolve(...)
	if self._status ~= Promise.Status.Started then
		if Promise.is((...)) then
			(...):_consumerCancelled(self)
		end
		return
	end

	-- If the resolved value was a Promise, we chain onto it!
	if Promise.is((...)) then
		-- Without this warning, arguments sometimes mysteriously disappear
		if select("#", ...) > 1 then
			local message = string.format(
				"When returning a Promise from andThen, extra arguments are " ..
				"discarded! See:\n\n%s",
				self._source
			)
			warn(message)
		end

		local chainedPromise = ...

		local promise = chainedPromise:andThen(
			function(...)
				self:_resolve(...)
			end,
			function(...)
				local maybeRuntimeError = chainedPromise._values[1]

				-- Backwards compatibility < v2
				if chainedPromise._error then
					maybeRuntimeError = Error.new({
						error = chainedPromise._error,
						kind = Error.Kind.ExecutionError,
						context = "[No stack trace available as this Promise originated from an older version of the Promise library (< v2)]",
					})
				end

				if Error.isKind(maybeRuntimeError, Error.Kind.ExecutionError) then
					return self:_reject(maybeRuntimeError:extend({
						error = "This Promise was chained to a Promise that errored.",
						trace = "",
						context = string.format(
							"The Promise at:\n\n%s\n...Rejected because it was chained to the following Promise, which encountered an error:\n",
							self._source
						),
					}))
				end

				self:_reject(...)
			end
		)

		if promise._status == Promise.Status.Cancelled then
			self:cancel()
		elseif promise._status == Promise.Status.Started then
			-- Adopt ourselves into promise for cancellation propagation.
			self._parent = promise
			promise._consumers[self] = true
		end

		return
	end

	self._status = Promise.Status.Resolved
	self._valuesLength, self._values = pack(...)

	-- We assume that these callbacks will not throw errors.
	for _, callback in ipairs(self._queuedResolve) do
		coroutine.wrap(callback)(...)
	end

	self:_finalize()
end

function Promise.prototype:_reject(...)
	if self._status ~= Promise.Status.Started then
		return
	end

	self._status = Promise.Status.Rejected
	self._valuesLength, self._values = pack(...)

	-- If there are any rejection handlers, call those!
	if not isEmpty(self._queuedReject) then
		-- We assume that these callbacks will not throw errors.
		for _, callback in ipairs(self._queuedReject) do
			coroutine.wrap(callback)(...)
		end
	else
		-- At this point, no one was able to observe the error.
		-- An error handler might still be attached if the error occurred
		-- synchronously. We'll wait one tick, and if there are still no
		-- observers, then we should put a message in the console.

		local err = tostring((...))

		coroutine.wrap(function()
			Promise._timeEvent:Wait()

			-- Someone observed the error, hooray!
			if not self._unhandledRejection then
				return
			end

			-- Build a reasonable message
			local message = string.format(
				"Unhandled Promise rejection:\n\n%s\n\n%s",
				err,
				self._source
			)

			if Promise.TEST then
				-- Don't spam output when we're running tests.
				return
			end

			warn(message)
		end)()
	end

	self:_finalize()
end

--[[
	Calls any :finally handlers. We need this to be a separate method and
	queue because we must call all of the finally callbacks upon a success,
	failure, *and* cancellation.
]]
function Promise.prototype:_finalize()
	for _, callback in ipairs(self._queuedFinally) do
		-- Purposefully not passing values to callbacks here, as it could be the
		-- resolved values, or rejected errors. If the developer needs the values,
		-- they should use :andThen or :catch explicitly.
		coroutine.wrap(callback)(self._status)
	end

	self._queuedFinally = nil
	self._queuedReject = nil
	self._queuedResolve = nil

	-- Clear references to other Promises to allow gc
	if not Promise.TEST then
		self._parent = nil
		self._consumers = nil
	end
end

--[[
	Chains a Promise from this one that is resolved if this Promise is
	resolved, and rejected if it is not resolved.
]]
function Promise.prototype:now(rejectionValue)
	local traceback = debug.traceback(nil, 2)
	if self:getStatus() == Promise.Status.Resolved then
		return self:_andThen(traceback, function(...)
			return ...
		end)
	else
		return Promise.reject(rejectionValue == nil and Error.new({
			kind = Error.Kind.NotResolvedInTime,
			error = "This Promise was not resolved in time for :now()",
			context = ":now() was called at:\n\n" .. traceback,
		}) or rejectionValue)
	end
end

--[[
	Retries a Promise-returning callback N times until it succeeds.
]]
function Promise.retry(callback, times, ...)
	assert(type(callback) == "function", "Parameter #1 to Promise.retry must be a function")
	assert(type(times) == "number", "Parameter #2 to Promise.retry must be a number")

	local args, length = {...}, select("#", ...)

	return Promise.resolve(callback(...)):catch(function(...)
		if times > 0 then
			return Promise.retry(callback, times - 1, unpack(args, 1, length))
		else
			return Promise.reject(...)
		end
	end)
end

--[[
	Converts an event into a Promise with an optional predicate
]]
function Promise.fromEvent(event, predicate)
	predicate = predicate or function()
		return true
	end

	return Promise._new(debug.traceback(nil, 2), function(resolve, reject, onCancel)
		local connection
		local shouldDisconnect = false

		local function disconnect()
			connection:Disconnect()
			connection = nil
		end

		-- We use shouldDisconnect because if the callback given to Connect is called before
		-- Connect returns, connection will still be nil. This happens with events that queue up
		-- events when there's nothing connected, such as RemoteEvents

		connection = event:Connect(function(...)
			local callbackValue = predicate(...)

			if callbackValue == true then
				resolve(...)

				if connection then
					disconnect()
				else
					shouldDisconnect = true
				end
			elseif type(callbackValue) ~= "boolean" then
				error("Promise.fromEvent predicate should always return a boolean")
			end
		end)

		if shouldDisconnect and connection then
			return disconnect()
		end

		onCancel(function()
			disconnect()
		end)
	end)
end

return Promise