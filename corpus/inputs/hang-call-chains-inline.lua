-- https://github.com/JohnnyMorganz/StyLua/pull/476#issuecomment-1166663080
local function interpolateVariables(title, template, index)
    return Array.reduce(
        Array.reduce(Object.keys(template), getMatchingKeyPaths(title), {}), -- aka flatMap
        replaceKeyPathWithValue(template),
        title
    ):gsub(
        "%$#", -- ROBLOX deviation: escaped string
        tostring(index),
        1
    )
end

do
	TweenService:Create(music, TweenInfo.new(1.4, Enum.EasingStyle.Sine, Enum.EasingDirection.InOut), { Volume = 0 }):Play()
end
