local something = fooooooooooooooo == barrrrrrrrrrrr and func(arggggggggggggggggggggggggggggggggggggggggg1, argggggggggg2) or somethingeeeeeeeeeeee
