function foo()
	while NextFreq.Access ~= true and not Llama.List.find(NextFreq.Access, Players.LocalPlayer.Team.Name) and NextIndex > #Constants.RADIO_CHANNEL_ORDER do
		print("test")
	end
end