local x = {
	"foo", -- comment
	"bar", -- test
	"baz" -- test
}

local foo = {
	MinSize = call(0, 0),
	MaxSize = call(math.huge, 500) -- TODO: Set this up
}

local x = { -- comment
    hello = "world",
    foo = "bar",
}

local foo = { -- bar
}

local bar = { baz -- bar
}

local baz = {
	-- foo
}

local foobar = {
	"string"
} -- trailing comment


local tbl = Roact.createElement({
	-- comment
	a = test
	-- comment
})