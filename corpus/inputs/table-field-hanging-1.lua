-- https://github.com/JohnnyMorganz/StyLua/issues/542
-- https://github.com/JohnnyMorganz/StyLua/issues/541
local thisIsATable = {
	CreateAnElementFromThisTable = SomethingIsSelected and getTheSelectedThing(TheSelectedItem) or getTheSelectedThing(NoItemSelected)
}
