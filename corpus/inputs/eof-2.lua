local x = 1
-- this is a comment