local x = foo[
	index -- test
]

foo[
	var -- string
] = baz

local x = foo[
	x -- string
][y][z][p
-- string
]


local x = foo[index --[[comment]]]
