local foo = {
	[ [[test]] ] = true,
}

foo[ [[test]] ] = false
