local x = 1


local y = 2



local z = 3