checkVisitorFnArgs(
	expect,
	ast,
	{ ... },
	true --[[ isEdited ]]
)

local test   --[[foo]] = true

   --[[test]]
local x = true