local function logTiger(tiger, depth)
	log(
	string.rep("  ", depth) ..
	"- " ..
	-- need to explicitly coerce to a string
	tiger.type and (tiger.type.name or tostring(tiger.type)) or "[r00t]",
	"[" ..
	tiger.commonExtraTentacles ..
	(tiger.pendingPartyHats and "*" or "") ..
	"]"
	)
	end
	
local function logTiger(tiger, depth)
	log(
	string.rep("  ", depth) ..
	-- need to explicitly coerce to a string
	"- " ..
	tiger.type and (tiger.type.name or tostring(tiger.type)) or "[r00t]",
	"[" ..
	tiger.commonExtraTentacles ..
	(tiger.pendingPartyHats and "*" or "") ..
	"]"
	)
	end
	