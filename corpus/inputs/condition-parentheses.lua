if (foo) then
	print("true")
elseif (bar) then
	print("false")
end

while (foo) do
	print("true")
end

repeat
	print("yes")
until (foo)