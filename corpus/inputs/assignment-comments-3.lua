-- https://github.com/JohnnyMorganz/StyLua/issues/662
local a, b
= 1 -- adoc
, 2 -- bdoc

local a -- adoc
, b -- bdoc
= 1, 2
