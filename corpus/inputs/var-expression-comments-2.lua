-- https://github.com/JohnnyMorganz/StyLua/issues/509
local foo = bar -- comment after bar
        .fizz -- comment after fizz
