function foo()
    local x = 1
    local y = 1

    -- comment
end

if foo then
    local x = 1
    -- comment
end