-- https://github.com/JohnnyMorganz/StyLua/issues/405
do
	for _,v in ipairs({
		Kind.SELECTION_sET,
		Kind.DIRECTIVE,
		Kind.OEPRATION_DEFINITION,
		Kind.INLINE_FRAGMENT,
		Kind.FRAGMENT_DEFINITION,
		Kind.ARGUMENT,
	}) do
	end
end

do
	for _,v in ipairs {
		Kind.SELECTION_sET,
		Kind.DIRECTIVE,
		Kind.OEPRATION_DEFINITION,
		Kind.INLINE_FRAGMENT,
		Kind.FRAGMENT_DEFINITION,
		Kind.ARGUMENT,
	} do
	end
end

-- These cases should not hug:
do
	for _,v in ipairs({
		Kind.SELECTION_sET,
		Kind.DIRECTIVE,
		Kind.OEPRATION_DEFINITION,
		Kind.INLINE_FRAGMENT,
		Kind.FRAGMENT_DEFINITION,
		Kind.ARGUMENT,
	}) -- comment
	do
	end
end

do
	for _,v in ipairs(foo and {
		Kind.SELECTION_sET,
		Kind.DIRECTIVE,
		Kind.OEPRATION_DEFINITION,
		Kind.INLINE_FRAGMENT,
		Kind.FRAGMENT_DEFINITION,
		Kind.ARGUMENT,
	} or bar)
	do
	end
end

do
	for _,v in call(function()
		return { test, another }
	end) do
	end
end

do
	for _,v in call({
		Kind.SELECTION_sET,
		Kind.DIRECTIVE,
		Kind.OEPRATION_DEFINITION,
		Kind.INLINE_FRAGMENT,
		Kind.FRAGMENT_DEFINITION,
		Kind.ARGUMENT,
	}), anotherThing do
	end
end

do
	for _,v in call({
		Kind.SELECTION_sET,
		Kind.DIRECTIVE,
		Kind.OEPRATION_DEFINITION,
		Kind.INLINE_FRAGMENT,
		Kind.FRAGMENT_DEFINITION,
		Kind.ARGUMENT,
	}, "failure case") do
	end
end

do
	for _,v in call({
		Kind.SELECTION_sET,
		Kind.DIRECTIVE,
		Kind.OEPRATION_DEFINITION,
		Kind.INLINE_FRAGMENT,
		Kind.FRAGMENT_DEFINITION,
		Kind.ARGUMENT,
	})(true) do
	end
end

do
	for _,v in x.y.z.call({
		Kind.SELECTION_sET,
		Kind.DIRECTIVE,
		Kind.OEPRATION_DEFINITION,
		Kind.INLINE_FRAGMENT,
		Kind.FRAGMENT_DEFINITION,
		Kind.ARGUMENT,
	}) do
	end
end

do
	for _,v in foo and call({
		Kind.SELECTION_sET,
		Kind.DIRECTIVE,
		Kind.OEPRATION_DEFINITION,
		Kind.INLINE_FRAGMENT,
		Kind.FRAGMENT_DEFINITION,
		Kind.ARGUMENT,
	}) or otherCall() do
	end
end

do
	for _,v in (foo({
		Kind.SELECTION_sET,
		Kind.DIRECTIVE,
		Kind.OEPRATION_DEFINITION,
		Kind.INLINE_FRAGMENT,
		Kind.FRAGMENT_DEFINITION,
		Kind.ARGUMENT,
	}) or true) do
	end
end

do
	for _,v in "thissssssssssssssssssssssssssssssssssssssssssssssssssssssssssssssssssssssssssssssssssssssssssssssssssssssssss" do
	end
end
