setmetatable({
	_words = words,
	_morewords = words,
	_evenmorewords = words,
	_words = words,
	_morewords = words,
	_evenmorewords = words,
}, Class)

foo({
	foo = bar,
}, baz, {
	bar = baz,
})

Roact.createElement("Frame", {
	foo = bar, bar = baz,
}, self.props[Roact.Children])