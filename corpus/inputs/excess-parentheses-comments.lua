local foo = (bar) -- test

-- https://github.com/JohnnyMorganz/StyLua/issues/530
call(
	-- comment
	(foo)
)
