-- https://github.com/JohnnyMorganz/StyLua/issues/514
local function escape(str)
	return (str:gsub("\\", "\\\\"):gsub("(%c)%f[0-9]", longControlCharEscapesssssssssssssssssssss):gsub("%c", shortControlCharEscapes))
end

do
	function dec(data)
		data = string.gsub(data, '[^' .. chars .. '=]', '')
		return (data:gsub('.', function(x)
			if (x == '=') then return '' end
			local r, f = '', (chars:find(x) - 1)
			for i=6,1,-1 do r=r..(f%2^i-f%2^(i-1)>0 and '1' or '0') end
			return r;
		end):gsub('%d%d%d?%d?%d?%d?%d?%d?', function(x)
			if (#x ~= 8) then return '' end
			local c=0
			for i=1,8 do c=c+(x:sub(i,i)=='1' and 2^(8-i) or 0) end
			return string.char(c)
		end))
	end
end
