-- https://github.com/JohnnyMorganz/StyLua/issues/609
-- Indicate precedence
local _ = (not true) == true
local _ = (not true) and false

-- https://github.com/JohnnyMorganz/StyLua/issues/623
-- Changes meaning
local y = (-X) ^ Y
