if
	this -- foobar
then
elseif
	foobar or code == 10 -- \n
then
	pos = 1
	lexer.line = 1
	lexer.lineStart = pos - 1
end

local function coerceToMap(mapLike)
	return instanceOf(mapLike, Map) and mapLike -- ROBLOX: order is preservered
		or Map.new(Object.entries(mapLike)) -- ROBLOX: order is not preserved
end

if -- comment
	foo
then
end

if
	foo
	-- comment
then
end

while -- commend
	foo
do
end

while
	foo
	-- comment
do
end

do
	return foo -- comment
		or bar, -- comment
		baz and foo
end

local x = foo -- comment
		or bar, -- comment
		baz and foo
