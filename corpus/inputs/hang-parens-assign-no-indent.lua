-- https://github.com/JohnnyMorganz/StyLua/issues/274
local tbl = {
	key = long_variable_name,
	key = long_variable_name,
	key = long_variable_name,
	key = long_variable_name,
	key = long_variable_name,
	key = long_variable_name,
	key = long_variable_name,
}
function_call(
	long_variable_name,
	long_variable_name,
	long_variable_name,
	long_variable_name,
	long_variable_name,
	long_variable_name,
	long_variable_name,
	long_variable_name
)
local test = (
	long_variable_name
	+ long_variable_name
	+ long_variable_name
	+ long_variable_name
	+ long_variable_name
	+ long_variable_name
	+ long_variable_name
	+ long_variable_name
	+ long_variable_name
	+ long_variable_name
)

-- Multiple assigns
local test, test2 = (
	long_variable_name
	+ long_variable_name
	+ long_variable_name
	+ long_variable_name
	+ long_variable_name
	+ long_variable_name
	+ long_variable_name
	+ long_variable_name
	+ long_variable_name
	+ long_variable_name
), (
	long_variable_name
	+ long_variable_name
	+ long_variable_name
	+ long_variable_name
	+ long_variable_name
	+ long_variable_name
	+ long_variable_name
	+ long_variable_name
	+ long_variable_name
	+ long_variable_name
)

-- Multiple assigns of different types
local test, test2 = foo and bar or baz, (
	long_variable_name
	+ long_variable_name
	+ long_variable_name
	+ long_variable_name
	+ long_variable_name
	+ long_variable_name
	+ long_variable_name
	+ long_variable_name
	+ long_variable_name
	+ long_variable_name
)

-- Negated Assigns
local test = not (
	long_variable_name
	+ long_variable_name
	+ long_variable_name
	+ long_variable_name
	+ long_variable_name
	+ long_variable_name
	+ long_variable_name
	+ long_variable_name
	+ long_variable_name
	+ long_variable_name
)
