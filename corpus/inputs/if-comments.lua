if true then
	-- foo
elseif bar then
	-- bar
else
	-- baz
end