local thisisathing = {this_is_one = "one", this_is_two = "two", this_is_three = "three", this_is_four = "four", f = "b"}
