local a = 0.5
local b = .5
local c = 100
local d = 5e-5
local e = -.5
local f = .2e-5
local g = -.1e+5
local h = 0x12