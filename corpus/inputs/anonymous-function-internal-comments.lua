-- https://github.com/JohnnyMorganz/StyLua/issues/627
t = t or function()
	print("Hello, World") -- comment
end

t = t or function()
	print("Hello, World")
end
