local function noop() -- comment
end

function noop()
	-- comment
end

call(function()
	-- comment

end)