-- https://github.com/JohnnyMorganz/StyLua/issues/747

obj. --
func(). --
func(). --
func()
