function func(
	param_a -- description of a
	, param_b -- description of b
) end
