-- hug table braces with parentheses

print({ foo_variable = "some long value", foo_variable = "some long value", foo_variable = "some long value", foo_variable = "some long value", })

print({ foo_variable = "somenge", foo_variable = "malue", foo_variable = "alueeeeeeeeeeeeeeeeeeeeeeeeeeeeeeeeeeeeeeeeee" })

-- but not if there is a comment present

foo( -- test
   { bar })

foo( -- test
	{
	   bar
	}
)

