function_call(("hello" .. "darkness" .. "my" .. "old" .. "friend" .. "hello" .. "darkness" .. "my" .. "old" .. "friend" .. "!!!!!!!!!!!!"):call())
