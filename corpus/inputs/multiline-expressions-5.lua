-- https://github.com/JohnnyMorganz/StyLua/issues/287: whitespace around tokens causes inconsistency
local foo = {
	getTileProps = function(tile)
		local result = {
			adId = not GetFFlagLuaAppAddUniverseIdToGameImpress()         and           (tile.props.entry and tile.props.entry.adId)
				or nil,
		}
	end,
}
