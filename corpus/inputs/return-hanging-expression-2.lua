return cframe
	-- Clamp & transform into world space
	* Vector3.new(
		math.clamp(transform.X, -halfSize.X, halfSize.X),
		math.clamp(transform.Y, -halfSize.Y, halfSize.Y),
		math.clamp(transform.Z, -halfSize.Z, halfSize.Z)
	), cframe.Position
