function foo(foooooooooooooooooooooooooooooooooooooooooooooooooooooooooooooooooo, barrrrrrrrrrrrrrrrrrrrrrrrrrrrrrr) end

function foo(foooooooooooooooooooooooooooooooooooooooooooooooooooooooooooooooooo, barrrrrrrrrrrrrrrrrrrrrrrrrrrrrrrrrr)
end

function foobar(fooooo, barrrrrrrrrr, bazzzzzzzzzzzzzzz, fooooooooooo, bazzzzzzzzzzzzzzzzzzz, barrrrrrrrrrrrrrrrrrrrrrrr)
	print("test")
end

do
	function foo(fooooo, barr -- test
	)
		print("test")
	end
end

do
	function bar(foooooooooooooooooooooooooooooooooooooooooooooooooooooooooooooooooo, barrrrrrrrrrrrrrrrrrrrrrrrrrrrrrrrrr)
	end
end

local x = {
	func = function (fooooo, bar --test
	)
		print("test")
	end,
}