local foo = {"bar", "baz", "foo", "bar", "baz", "foo", "bar", "baz", "foo", "bar", "baz", "foo", "bar", "baz", "foo", "bar", "baz"}

local foo = {"bar", "baz", "foo", "bar", "baz", "foo",
	"bar", "baz", "foo", "bar", "baz", "foo", "bar",
	"baz", "foo", "bar", "baz", "foo", "bar", "baz"}

local foo = {

}