function SetCallsign(Player, Callsign)
	if Settings.PolicingSetup.Radio or (table.find(Settings.PolicingSetup.CallsignPrefix, string.sub(Callsign, 1, 2)) and tonumber(string.sub(Callsign, 3, 4))) then
		Player:SetAttribute("Callsign", Callsign)
	end
end