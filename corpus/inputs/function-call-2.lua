local App = Roact.createElement("Frame", {
	Size = UDim2.new(0,0,0,0),
	Position = UDim2.new(0,0,0,0)
}, {
	Child1 = Roact.createElement("TextLabel", {
		Text = "foo",
		AnchorPoint = Vector2.new(0, 0), -- comment
		foo = bar
	}),

	Child2 = Roact.createElement("TextLabel", {
		Text = "foo",
		AnchorPoint = Vector2.new(0, 0),
		foo = bar
	}),
})

doSomething({
	aLongKey = aLongValue,
	anotherLongKey = anotherLongValue
}, notATableLiteral, {
	aLongKey = anotherLongValue,
	anotherLongKey = aLongValue
})

table.sort(recommendedDeveloperProducts, function(a, b)
	return a.amount < b.amount
end)