-- standard escapes
local a = "foo \a \b \f \n \r \t \v \\ \" \'"

-- decimal escapes
local b = "\000 \001 \189 \254 \255"
local b2 = "\1 \2 \71\9"

-- lua 5.2: hex escapes
local c = "hello \x77\x6f\x72\x6c\x64\x99"

-- lua 5.2: \z
local d = "hello \z  test"

-- lua 5.3: utf8
local e = "\u{123} \u{255}"

-- wrong:
local f = "\q \p \e"
