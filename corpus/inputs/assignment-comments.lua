local isValid =
	-- Allow nil for conditional declaration
	contextType == nil or
	(contextType["$$typeof"] == REACT_CONTEXT_TYPE and
		contextType._context == nil) -- Not a <Context.Consumer>

local isValid = -- Allow nil for conditional declaration
	foo

local isValid = -- test comment
	-- Allow nil for conditional declaration
	contextType == nil or
	(contextType["$$typeof"] == REACT_CONTEXT_TYPE and
		contextType._context == nil) -- Not a <Context.Consumer>

-- https://github.com/JohnnyMorganz/StyLua/issues/340
local useDisposableConcast =
	-- * Refetching uses a disposable Concast to allow refetches using different
	-- options/variables, without permanently altering the options of the
	-- original ObservableQuery.
	newNetworkStatus == NetworkStatus.refetch or
	-- * The fetchMore method does not actually call the reobserve method, but,
	-- if it did, it would definitely use a disposable Concast.
	newNetworkStatus == NetworkStatus.fetchMore or
	-- * Polling uses a disposable Concast so the polling options (which force
	-- fetchPolicy to be "network-only") won't override the original options.
	newNetworkStatus == NetworkSt
