function sayHello(
	name,    -- YourName
	foo,--baz
	greeting -- Message
)
	return greeting .. ", " .. name
end