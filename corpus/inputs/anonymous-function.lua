local foo = function(bar, baz) print(foo) end
call(function(x,y) local x = test end)