-- https://github.com/JohnnyMorganz/StyLua/issues/504
local x = {
	FragmentDefinition = function(ref)
		local name, typeCondition, variableDefinitions, directives, selectionSet =
			ref.name, ref.typeCondition, ref.variableDefinitions, ref.directives, ref.selectionSet
		return
		-- Note: fragment variable definitions are experimental and may be changed
		-- or removed in the future.
			("fragment %s%s "):format(
				tostring(name),
				tostring(wrap("(", join(variableDefinitions, ", "), ")"))
			) .. ("on %s %s"):format(
				tostring(typeCondition),
				tostring(wrap("", join(directives, " "), " "))
			) .. tostring(selectionSet)
        end,
}
