function foo()
	return fooooooooooooooooooo(barrr) or foooooooooooooooooooooooooooooooooooooooooooooooooooooopppo(barrrrrrrrrrrrrr)(hello) or bazzzzzzzzzzzzzzzzzz
  end

