-- https://github.com/JohnnyMorganz/StyLua/issues/302
return function()
	if overrides == nil then
		setupOverrides()
	end

	if overrides[key] == nil then
		return value
	end

	return overrides[key]
end, function(callback)
	overrideWatchers[key] = callback
end
