-- https://github.com/JohnnyMorganz/StyLua/issues/524
if ( object == "linebreak" or	--Force a new line
	type(object) == "table" and	--Make sure this is an actual object before checking further.
	((container.flowMaxPerLine and currentPrimaryLine > container.flowMaxPerLine) or	--We went past the max number of columns
		currentSecondaryOffset + object["Get"..primaryDirection](object) > container["Get"..primaryDirection](container)) ) then	--We went past the max pixel width.
end

if ( name and
	((not strictFiltering) and
		( tokenTable[subgroup] or tokenTable[className] or (role and tokenTable[role]) or tokenTable[assignedRole] ) -- non-strict filtering
	) or
		( tokenTable[subgroup] and tokenTable[className] and ((role and tokenTable[role]) or tokenTable[assignedRole]) ) -- strict filtering
) then

end
