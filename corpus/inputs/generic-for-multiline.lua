local function system(world)
	for id, model, lasering, transform in world:query(Components.Model, Components.Lasering, Components.Transform, Components.Mothership) do
	end
end

local function system(world)
	for id, model, lasering, transform, id, model, lasering, transform, id, model, lasering, transform, id, model, lasering, transform in world:query(Components.Model, Components.Lasering, Components.Transform, Components.Mothership) do
	end
end

local function system(world)
	for id, model, lasering, transform, id, model, lasering, transform, id, model, lasering, transform, id, model, lasering, transform in world:query(Components.Model, Components.Lasering, Components.Transform, Components.Mothership, Components.Mothership) do
	end
end
