local output = Job
    :new({
    command = "stylua",
    args = { "-" },
    writer = api.nvim_buf_get_lines(bufnr, 0, -1, false),
  })
    :sync()
