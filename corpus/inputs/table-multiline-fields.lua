local obj = { method1 = function(self) end, method2 = function(self, name) end }

local obj = { method1 = function(self) print(true) end, method2 = function(self, name) end }

local obj = { method1 = function(self) end, method2 = function(self, name) end, method3 = function(self) end, method4 = function(self, name) end, ["some-method"] = function(self) end, ["another-method"] = function(self, name) end, ["some-another-method"] = function(self) end, ["yet-another-method"] = function(self, name) end }