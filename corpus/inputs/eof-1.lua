local x = 1



