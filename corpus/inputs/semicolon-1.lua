local x = 1; -- comment
do
	return; -- bad
end; -- comment

local y; -- comment
z = 5; -- comment

repeat x = x + 1 until x > 5; -- comment

for x,y in pairs(z) do
	break; -- comment
end; -- comment

if x then end; -- comment

function foo()
end; -- comment

local function bar()
end; -- comment

for i = 1, 10 do
end; -- comment

while true do
end; -- comment

call("hello"); -- comment
call"hello"; -- comment
call { foo = bar }; -- comment

return x; -- comment
