--Version 2 1.02 I fixed some problems caused by the updates.
adminlist = {"Person299"}--Add in the names of the people you want to be able to use the command script here.
--Please keep my name in there. ;)
bannedlist = { "someoneyouhate","noob"}--If you want someone not to be able to enter your place, put thier name in here.
texture = ""--If you want someone wearing a certain t-shirt to be an admin, put the t-shirt's texture in here.

--[[
 I update this command script alot, so if you want to get the newest version of the script, go to http://www.roblox.com/Item.aspx?ID=5277383 every once in a while.

If theres anything you think this command script needs, just message me (Person299) and i might put it in. :)
And also, if you find any bugs, report them to me.

The commands are,

commands
Shows a list of all the commands

fix
If the command script breaks for you, say this to fix it

kill/Person299
kills Person299

loopkill/Person299
Repeatedly kills Person299 when he respawns

unloopkill/Person299
Undos loopkill/

heal/Person299
Returns Person299 to full health

damage/Person299/50
Makes Person299's character take 50 damage

health/Person299/999999
Makes Person299's MaxHealth and Health 999999

kick/Person299
Removes Person299 from the game, cannot be used by admin/ed people

ban/Person299
Removes Person299 from the game and keeps him from reenterring, cannot be used by admin/ed people

bannedlist
Shows a list of everyone banned

unban/Person299
Unbans Person299

explode/Person299
Explodes Person299's character

rocket/Person299
Straps a rocket onto Person299's back

removetools/Person299
Removes all of Person299's tools.

givetools/Person299
Gives Person299 all the tools in StarterPack

givebtools/Person299
Gives Person299 the building tools

sit/Person299
Makes Person299 sit

part/4/1/2
Makes a part with the given dimensions appear over your character

respawn/Person299
Makes Person299's character respawn

jail/Person299
Makes a lil jail cell around Person299's character

unjail/Person299
Undos jail/

punish/Person299
Puts Person299's character in game.Lighting

unpunish/Person299
Undos punish/

merge/Person299/Farvei
Makes Person299 control Farvei's character

teleport/Person299/nccvoyager
Teleports Person299's character to nccvoyager's character

control/Person299
Makes you control Person299's character

change/Person299/Money/999999
Makes the Money value in Person299's leaderstats 999999

tools
Gives you a list of all the tools available to be give/en, the tool must be in game.Lighting

give/Person299/Tool
Give's Person299 a tool, the toolname can be abbreviated

time/15.30
Makes game.Lighting.TimeOfDay 15:30

ambient/255/0/0
Makes game.Lighting.Ambient 255,0,0

maxplayers/20
Makes game.Players.MaxPlayers 20

nograv/Person299
Makes Person299 almost weightless

antigrav/Person299
Gives Person299 antigravity properties

grav/Person299
Returns Person299's gravity to normal

highgrav/Person299
Makes Person299 heavier

setgrav/Person299/-196
Sets Person299's gravity

trip/Person299
Makes Person299's character trip

walkspeed/Person299/99
Makes Person299's character's humanoid's WalkSpeed 99, 16 is average

invisible/Person299
Makes Person299's character invisible

visible/Person299
Undos invisible/

freeze/Person299
Makes Person299's character unable to move

thaw/Person299
Undos freeze/

unlock/Person299
Makes Person299's character unlocked

lock/Person299
Makes Person299's character locked

ff/Person299
Gives Person299's character a ForceField

unff/Person299
Undos ff/

sparkles/Person299
Makes Person299's character sparkly

unsparkles/Person299
Undos sparkles/

shield/Person299
Makes a destructive shield thingy appear around Person299

unshield/Person299
Undos shield/

god/Person299
Makes Person299 godish

ungod/Person299
Undos god/

zombify/Person299
Makes Person299 a infecting zombie

admin/Person299
Makes Person299 able to use the command script, cannot be used by admin/ed people

adminlist
Shows a list of everyone in the adminlist

unadmin/Person299
Undos admin/, cannot be used by admin/ed people

shutdown
Shuts the server down, cannot be used by admin/ed people

m/Fallout 2 is one of the best games ever made
Makes a message appear on the screen saying "Fallout 2 is one of the best games ever made" for 2 seconds

h/i like pie
Makes a hint appear on the screen saying "i like pie" for 2 seconds

c/ game.Workspace:remove()
Makes a script which source is whats after c/

clear
Removes all scripts created by c/ and removes all jails.

Capitalisation doesnt matter, and name input can be abbreviated.
Just about any name input can be replaced with multiple names seperated by ","s, me, all, others, guests, admins, nonadmins, random, or team teamname.

--]]

namelist = { }
variablelist = { }
flist = { }

local source = script:FindFirstChild("source")
if source ~= nil then
sbbu = script.source:clone()
sbbu.Disabled = false
else
print("source doesnt exist, your command script may malfunction")
end


tools = Instance.new("Model")
c = game.Lighting:GetChildren()
for i=1,#c do
if c[i].className == "Tool" then
c[i]:clone().Parent = tools
end
if c[i].className == "HopperBin" then
c[i]:clone().Parent = tools
end end

function findplayer(name,speaker)
if string.lower(name) == "all" then
local chars = { }
local c = game.Players:GetChildren()
for i =1,#c do
if c[i].className == "Player" then
table.insert(chars,c[i])
end end
return chars
elseif string.sub(string.lower(name),1,9) == "nonadmins" then
local nnum = 0
local chars = { }
local c = game.Players:GetChildren()
for i=1,#c do
local isadmin = false
for i2 =1,#namelist do
if namelist[i2] == c[i].Name then
isadmin = true
end end 
if isadmin == false then
nnum = nnum + 1
table.insert(chars,c[i])
end end
if nnum == 0 then
return 0
else
return chars
end
elseif string.sub(string.lower(name),1,6) == "admins" then
local anum = 0
local chars = { }
local c = game.Players:GetChildren()
for i=1,#c do
for i2 =1,#namelist do
if namelist[i2] == c[i].Name then
anum = anum + 1
table.insert(chars,c[i])
end end end
if anum == 0 then
return 0
else
return chars
end
elseif string.sub(string.lower(name),1,6) == "random" then
while true do
local c = game.Players:GetChildren()
local r = math.random(1,#c)
if c[r].className == "Player" then
return { c[r] }
end end
elseif string.sub(string.lower(name),1,6) == "guests" then
local gnum = 0
local chars = { }
local c = game.Players:GetChildren()
for i=1,#c do
if string.sub(c[i].Name,1,5) == "Guest" then
gnum = gnum + 1
table.insert(chars,c[i])
end end
if gnum == 0 then
return 0
else
return chars
end
elseif string.sub(string.lower(name),1,5) == "team " then
local theteam = nil
local tnum = 0
if game.Teams ~= nil then
local c = game.Teams:GetChildren()
for i =1,#c do
if c[i].className == "Team" then
if string.find(string.lower(c[i].Name),string.sub(string.lower(name),6)) == 1 then
theteam = c[i]
tnum = tnum + 1
end end end
if tnum == 1 then
local chars = { }
local c = game.Players:GetChildren()
for i =1,#c do
if c[i].className == "Player" then
if c[i].TeamColor == theteam.TeamColor then
table.insert(chars,c[i])
end end end
return chars
end end
return 0
elseif string.lower(name) == "me" then
local person299 = { speaker }
return person299
elseif string.lower(name) == "others" then
local chars = { }
local c = game.Players:GetChildren()
for i =1,#c do
if c[i].className == "Player" then
if c[i] ~= speaker then
table.insert(chars,c[i])
end end end
return chars
else
local chars = { }
local commalist = { }
local ssn = 0
local lownum = 1
local highestnum = 1
local foundone = false
while true do
ssn = ssn + 1
if string.sub(name,ssn,ssn) == "" then
table.insert(commalist,lownum)
table.insert(commalist,ssn - 1)
highestnum = ssn - 1
break
end
if string.sub(name,ssn,ssn) == "," then
foundone = true
table.insert(commalist,lownum)
table.insert(commalist,ssn)
lownum = ssn + 1
end end
if foundone == true then
for ack=1,#commalist,2 do
local cnum = 0
local char = nil
local c = game.Players:GetChildren()
for i =1,#c do
if c[i].className == "Player" then
if string.find(string.lower(c[i].Name),string.sub(string.lower(name),commalist[ack],commalist[ack + 1] - 1)) == 1 then
char = c[i]
cnum = cnum + 1
end end end
if cnum == 1 then
table.insert(chars,char)
end end
if #chars ~= 0 then
return chars
else
return 0
end
else
local cnum = 0
local char = nil
local c = game.Players:GetChildren()
for i =1,#c do
if c[i].className == "Player" then
if string.find(string.lower(c[i].Name),string.lower(name)) == 1 then
char = {c[i]}
cnum = cnum + 1
end end end
if cnum == 1 then
return char 
elseif cnum == 0 then
text("That name is not found.",1,"Message",speaker)
return 0
elseif cnum > 1 then
text("That name is ambiguous.",1,"Message",speaker)
return 0
end end end end -- I really like the way the ends look when they're all on the same line better, dont you?

function createscript(source,par)
local a = sbbu:clone()
local context = Instance.new("StringValue")
context.Name = "Context"
context.Value = source
context.Parent = a
while context.Value ~= source do wait() end
a.Parent = par
local b = Instance.new("IntValue")
b.Name = "Is A Created Script"
b.Parent = a
end

function text(message,duration,type,object)
local m = Instance.new(type)
m.Text = message
m.Parent = object
wait(duration)
if m.Parent ~= nil then
m:remove()
end end

function foc(msg,speaker)
if string.lower(msg) == "fix" then
for i =1,#namelist do
if namelist[i] == speaker.Name then
variablelist[i]:disconnect()
table.remove(variablelist,i)
table.remove(namelist,i)
table.remove(flist,i)
end end
local tfv = speaker.Chatted:connect(function(msg) oc(msg,speaker) end)
table.insert(namelist,speaker.Name)
table.insert(variablelist,tfv)
local tfv = speaker.Chatted:connect(function(msg) foc(msg,speaker) end)
table.insert(flist,tfv)
end end

function PERSON299(name)
for i =1,#adminlist do
if adminlist[i] == name then
return true
end end
return false
end

function oc(msg,speaker)

if string.sub(string.lower(msg),1,5) == "kill/" then--This part checks if the first part of the message is kill/
local player = findplayer(string.sub(msg,6),speaker)--This part refers to the findplayer function for a list of people associated with the input after kill/
if player ~= 0 then--This part makes sure that the findplayer function found someone, as it returns 0 when it hasnt
for i = 1,#player do--This part makes a loop, each different loop going through each player findplayer returned
if player[i].Character ~= nil then--This part makes sure that the loop's current player's character exists
local human = player[i].Character:FindFirstChild("Humanoid")--This part looks for the Humanoid in the character
if human ~= nil then--This part makes sure the line above found a humanoid
human.Health = 0--This part makes the humanoid's health 0
end end end end end--This line contains the ends for all the if statements and the for loop

if string.sub(string.lower(msg),1,2) == "m/" then
text(speaker.Name .. ": " .. string.sub(msg,3),2,"Message",game.Workspace)
end

if string.sub(string.lower(msg),1,2) == "h/" then
text(speaker.Name .. ": " .. string.sub(msg,3),2,"Hint",game.Workspace)
end

if string.sub(string.lower(msg),1,2) == "c/" then--Dontcha wish pcall was more reliable?
createscript(string.sub(msg,3),game.Workspace)
end

local msg = string.lower(msg)

if string.sub(msg,1,5) == "give/" then
local danumber1 = nil
for i = 6,100 do
if string.sub(msg,i,i) == "/" then
danumber1 = i
break
elseif string.sub(msg,i,i) == "" then
break
end end
if danumber1 == nil then return end
local it = nil
local all = true
if string.sub(string.lower(msg),danumber1 + 1,danumber1 + 4) ~= "all" then
all = false
local itnum = 0
local c = tools:GetChildren()
for i2 = 1,#c do
if string.find(string.lower(c[i2].Name),string.sub(string.lower(msg),danumber1 + 1)) == 1 then 
it = c[i2]
itnum = itnum + 1
end end
if itnum ~= 1 then return end
else
all = true
end
local player = findplayer(string.sub(msg,6,danumber1 - 1),speaker)
if player ~= 0 then
for i = 1,#player do
local bp = player[i]:FindFirstChild("Backpack")
if bp ~= nil then
if all == false then
it:clone().Parent = bp
else
local c = tools:GetChildren()
for i2 = 1,#c do
c[i2]:clone().Parent = bp
end end end end end end

--Bored...

if string.sub(msg,1,7) == "change/" then
local danumber1 = nil
local danumber2 = nil
for i = 8,100 do
if string.sub(msg,i,i) == "/" then
danumber1 = i
break
elseif string.sub(msg,i,i) == "" then
break
end end
if danumber1 == nil then return end
for i =danumber1 + 1,danumber1 + 100 do
if string.sub(msg,i,i) == "/" then
danumber2 = i
break
elseif string.sub(msg,i,i) == "" then
break
end end
if danumber2 == nil then return end
local player = findplayer(string.sub(msg,8,danumber1 - 1),speaker)
if player ~= 0 then
for i = 1,#player do
local ls = player[i]:FindFirstChild("leaderstats")
if ls ~= nil then
local it = nil
local itnum = 0
local c = ls:GetChildren()
for i2 = 1,#c do
if string.find(string.lower(c[i2].Name),string.sub(string.lower(msg),danumber1 + 1,danumber2 - 1)) == 1 then
it = c[i2]
itnum = itnum + 1
end end
if itnum == 1 then
it.Value = string.sub(msg,danumber2 + 1)
end end end end end

if string.sub(msg,1,6) == "ungod/" then
local player = findplayer(string.sub(msg,7),speaker)
if player ~= 0 then
for i = 1,#player do
if player[i].Character ~= nil then
local isgod = false
local c = player[i].Character:GetChildren()
for i=1,#c do
if c[i].className == "Script" then
if c[i]:FindFirstChild("Context") then
if string.sub(c[i].Context.Value,1,41) == "script.Parent.Humanoid.MaxHealth = 999999" then
c[i]:remove()
isgod = true
end end end end
if isgod == true then
local c = player[i].Character:GetChildren()
for i=1,#c do
if c[i].className == "Part" then
c[i].Reflectance = 0
end
if c[i].className == "Humanoid" then
c[i].MaxHealth = 100
c[i].Health = 100
end 
if c[i].Name == "God FF" then
c[i]:remove()
end end end end end end end

if string.sub(msg,1,4) == "god/" then
local player = findplayer(string.sub(msg,5),speaker)
if player ~= 0 then
for i = 1,#player do
if player[i].Character ~= nil then
if player[i].Character:FindFirstChild("God FF") == nil then
createscript([[script.Parent.Humanoid.MaxHealth = 999999
script.Parent.Humanoid.Health = 999999
ff = Instance.new("ForceField")
ff.Name = "God FF"
ff.Parent = script.Parent
function ot(hit)
if hit.Parent ~= script.Parent then
h = hit.Parent:FindFirstChild("Humanoid")
if h ~= nil then
h.Health = 0
end
h = hit.Parent:FindFirstChild("Zombie")
if h ~= nil then
h.Health = 0
end end end
c = script.Parent:GetChildren()
for i=1,#c do
if c[i].className == "Part" then
c[i].Touched:connect(ot)
c[i].Reflectance = 1
end end]],player[i].Character)
end end end end end

if string.sub(msg,1,7) == "punish/" then
local player = findplayer(string.sub(msg,8),speaker)
if player ~= 0 then
for i = 1,#player do
if player[i].Character ~= nil then
player[i].Character.Parent = game.Lighting
end end end end

if string.sub(msg,1,9) == "unpunish/" then
local player = findplayer(string.sub(msg,10),speaker)
if player ~= 0 then
for i = 1,#player do
if player[i].Character ~= nil then
player[i].Character.Parent = game.Workspace
player[i].Character:MakeJoints()
end end end end

if string.sub(msg,1,3) == "ff/" then
local player = findplayer(string.sub(msg,4),speaker)
if player ~= 0 then
for i = 1,#player do
if player[i].Character ~= nil then
local ff = Instance.new("ForceField")
ff.Parent = player[i].Character
end end end end

if string.sub(msg,1,5) == "unff/" then
local player = findplayer(string.sub(msg,6),speaker)
if player ~= 0 then
for i = 1,#player do
if player[i].Character ~= nil then
local c = player[i].Character:GetChildren()
for i2 = 1,#c do
if c[i2].className == "ForceField" then
c[i2]:remove()
end end end end end end

if string.sub(msg,1,9) == "sparkles/" then
local player = findplayer(string.sub(msg,10),speaker)
if player ~= 0 then
for i = 1,#player do
if player[i].Character ~= nil then
local torso = player[i].Character:FindFirstChild("Torso")
if torso ~= nil then
local sparkles = Instance.new("Sparkles")
sparkles.Color = Color3.new(math.random(1,255),math.random(1,255),math.random(1,255))
sparkles.Parent = torso
end end end end end

if string.sub(msg,1,11) == "unsparkles/" then
local player = findplayer(string.sub(msg,12),speaker)
if player ~= 0 then
for i = 1,#player do
if player[i].Character ~= nil then
local torso = player[i].Character:FindFirstChild("Torso")
if torso ~= nil then
local c = torso:GetChildren()
for i2 = 1,#c do
if c[i2].className == "Sparkles" then
c[i2]:remove()
end end end end end end end

if string.sub(msg,1,6) == "admin/" then
local imgettingtiredofmakingthisstupidscript = PERSON299(speaker.Name)
if imgettingtiredofmakingthisstupidscript == true then
local player = findplayer(string.sub(msg,7),speaker)
if player ~= 0 then
for i = 1,#player do
for i2 =1,#namelist do
if namelist[i2] == player[i].Name then
variablelist[i2]:disconnect()
flist[i2]:disconnect()
table.remove(variablelist,i2)
table.remove(flist,i2)
table.remove(namelist,i2)
end end
local tfv = player[i].Chatted:connect(function(msg) oc(msg,player[i]) end)
table.insert(namelist,player[i].Name)
table.insert(variablelist,tfv)
local tfv = player[i].Chatted:connect(function(msg) foc(msg,player[i]) end)
table.insert(flist,tfv)
end end end end

if string.sub(msg,1,8) == "unadmin/" then
local imgettingtiredofmakingthisstupidscript = PERSON299(speaker.Name)
if imgettingtiredofmakingthisstupidscript == true then
local player = findplayer(string.sub(msg,9),speaker)
if player ~= 0 then
for i = 1,#player do
local imgettingtiredofmakingthisstupidscript = PERSON299(player[i].Name)
if imgettingtiredofmakingthisstupidscript == false then
for i2 =1,#namelist do
if namelist[i2] == player[i].Name then
variablelist[i2]:disconnect()
table.remove(variablelist,i2)
flist[i2]:disconnect()
table.remove(flist,i2)
table.remove(namelist,i2)
end end end end end end end

if string.sub(msg,1,5) == "heal/" then
local player = findplayer(string.sub(msg,6),speaker)
if player ~= 0 then
for i = 1,#player do
if player[i].Character ~= nil then
local human = player[i].Character:FindFirstChild("Humanoid")
if human ~= nil then
human.Health = human.MaxHealth
end end end end end

if string.sub(msg,1,4) == "sit/" then
local player = findplayer(string.sub(msg,5),speaker)
if player ~= 0 then
for i = 1,#player do
if player[i].Character ~= nil then
local human = player[i].Character:FindFirstChild("Humanoid")
if human ~= nil then
human.Sit = true
end end end end end

if string.sub(msg,1,5) == "jump/" then
local player = findplayer(string.sub(msg,6),speaker)
if player ~= 0 then
for i = 1,#player do
if player[i].Character ~= nil then
local human = player[i].Character:FindFirstChild("Humanoid")
if human ~= nil then
human.Jump = true
end end end end end

if string.sub(msg,1,6) == "stand/" then
local player = findplayer(string.sub(msg,7),speaker)
if player ~= 0 then
for i = 1,#player do
if player[i].Character ~= nil then
local human = player[i].Character:FindFirstChild("Humanoid")
if human ~= nil then
human.Sit = false
end end end end end

if string.sub(msg,1,5) == "jail/" then
local player = findplayer(string.sub(msg,6),speaker)
if player ~= 0 then
for i = 1,#player do
if player[i].Character ~= nil then
local torso = player[i].Character:FindFirstChild("Torso")
if torso ~= nil then
local ack = Instance.new("Model")
ack.Name = "Jail" .. player[i].Name
icky = Instance.new("Part") icky.Size = Vector3.new(1,7.2000002861023,1) icky.CFrame = CFrame.new(-26.5, 108.400002, -1.5, 0, 0, -1, 0, 1, -0, 1, 0, -0) icky.Color = Color3.new(0.105882, 0.164706, 0.203922)  icky.Anchored = true  icky.Locked = true  icky.CanCollide = true  icky.Parent = ack  icky = Instance.new("Part") icky.Size = Vector3.new(1,7.2000002861023,1) icky.CFrame = CFrame.new(-24.5, 108.400002, -3.5, 0, 0, -1, 0, 1, -0, 1, 0, -0) icky.Color = Color3.new(0.105882, 0.164706, 0.203922)  icky.Anchored = true  icky.Locked = true  icky.CanCollide = true  icky.Parent = ack  icky = Instance.new("Part") icky.Size = Vector3.new(1,7.2000002861023,1) icky.CFrame = CFrame.new(-30.5, 108.400002, -3.5, -1, 0, -0, -0, 1, -0, -0, 0, -1) icky.Color = Color3.new(0.105882, 0.164706, 0.203922)  icky.Anchored = true  icky.Locked = true  icky.CanCollide = true  icky.Parent = ack  icky = Instance.new("Part") icky.Size = Vector3.new(1,7.2000002861023,1) icky.CFrame = CFrame.new(-28.5, 108.400002, -1.5, 0, 0, -1, 0, 1, -0, 1, 0, -0) icky.Color = Color3.new(0.105882, 0.164706, 0.203922)  icky.Anchored = true  icky.Locked = true  icky.CanCollide = true  icky.Parent = ack  icky = Instance.new("Part") icky.Size = Vector3.new(1,7.2000002861023,1) icky.CFrame = CFrame.new(-24.5, 108.400002, -5.5, 0, 0, -1, 0, 1, -0, 1, 0, -0) icky.Color = Color3.new(0.105882, 0.164706, 0.203922)  icky.Anchored = true  icky.Locked = true  icky.CanCollide = true  icky.Parent = ack  icky = Instance.new("Part") icky.Size = Vector3.new(1,7.2000002861023,1) icky.CFrame = CFrame.new(-24.5, 108.400002, -7.5, 0, 0, -1, 0, 1, -0, 1, 0, -0) icky.Color = Color3.new(0.105882, 0.164706, 0.203922)  icky.Anchored = true  icky.Locked = true  icky.CanCollide = true  icky.Parent = ack  icky = Instance.new("Part") icky.Size = Vector3.new(1,7.2000002861023,1) icky.CFrame = CFrame.new(-24.5, 108.400002, -1.5, 0, 0, -1, 0, 1, -0, 1, 0, -0) icky.Color = Color3.new(0.105882, 0.164706, 0.203922)  icky.Anchored = true  icky.Locked = true  icky.CanCollide = true  icky.Parent = ack  icky = Instance.new("Part") icky.Size = Vector3.new(1,7.2000002861023,1) icky.CFrame = CFrame.new(-30.5, 108.400002, -7.5, -1, 0, -0, -0, 1, -0, -0, 0, -1) icky.Color = Color3.new(0.105882, 0.164706, 0.203922)  icky.Anchored = true  icky.Locked = true  icky.CanCollide = true  icky.Parent = ack  icky = Instance.new("Part") icky.Size = Vector3.new(7,1.2000000476837,7) icky.CFrame = CFrame.new(-27.5, 112.599998, -4.5, 0, 0, -1, 0, 1, -0, 1, 0, -0) icky.Color = Color3.new(0.105882, 0.164706, 0.203922)  icky.Anchored = true  icky.Locked = true  icky.CanCollide = true  icky.Parent = ack  icky = Instance.new("Part") icky.Size = Vector3.new(1,7.2000002861023,1) icky.CFrame = CFrame.new(-26.5, 108.400002, -7.5, 0, 0, -1, 0, 1, -0, 1, 0, -0) icky.Color = Color3.new(0.105882, 0.164706, 0.203922)  icky.Anchored = true  icky.Locked = true  icky.CanCollide = true  icky.Parent = ack  icky = Instance.new("Part") icky.Size = Vector3.new(1,7.2000002861023,1) icky.CFrame = CFrame.new(-30.5, 108.400002, -5.5, -1, 0, -0, -0, 1, -0, -0, 0, -1) icky.Color = Color3.new(0.105882, 0.164706, 0.203922)  icky.Anchored = true  icky.Locked = true  icky.CanCollide = true  icky.Parent = ack  icky = Instance.new("Part") icky.Size = Vector3.new(1,7.2000002861023,1) icky.CFrame = CFrame.new(-30.5, 108.400002, -1.5, -1, 0, -0, -0, 1, -0, -0, 0, -1) icky.Color = Color3.new(0.105882, 0.164706, 0.203922)  icky.Anchored = true  icky.Locked = true  icky.CanCollide = true  icky.Parent = ack  icky = Instance.new("Part") icky.Size = Vector3.new(1,7.2000002861023,1) icky.CFrame = CFrame.new(-28.5, 108.400002, -7.5, 0, 0, -1, 0, 1, -0, 1, 0, -0) icky.Color = Color3.new(0.105882, 0.164706, 0.203922)  icky.Anchored = true  icky.Locked = true  icky.CanCollide = true  icky.Parent = ack 
ack.Parent = game.Workspace
ack:MoveTo(torso.Position)
end end end end end

if string.sub(msg,1,7) == "unjail/" then
local player = findplayer(string.sub(msg,8),speaker)
if player ~= 0 then
for i = 1,#player do
local c = game.Workspace:GetChildren()
for i2 =1,#c do
if string.sub(c[i2].Name,1,4) == "Jail" then
if string.sub(c[i2].Name,5) == player[i].Name then
c[i2]:remove()
end end end end end end

if string.sub(msg,1,12) == "removetools/" then
local player = findplayer(string.sub(msg,13),speaker)
if player ~= 0 then
for i = 1,#player do
local c = player[i].Backpack:GetChildren()
for i =1,#c do
c[i]:remove()
end end end end

if string.sub(msg,1,10) == "givetools/" then
local player = findplayer(string.sub(msg,11),speaker)
if player ~= 0 then
for i = 1,#player do
local c = game.StarterPack:GetChildren()
for i =1,#c do
c[i]:clone().Parent = player[i].Backpack
end end end end

if string.sub(msg,1,11) == "givebtools/" then
local player = findplayer(string.sub(msg,12),speaker)
if player ~= 0 then
for i = 1,#player do
local a = Instance.new("HopperBin")
a.BinType = "GameTool"
a.Parent = player[i].Backpack
local a = Instance.new("HopperBin")
a.BinType = "Clone"
a.Parent = player[i].Backpack
local a = Instance.new("HopperBin")
a.BinType = "Hammer"
a.Parent = player[i].Backpack
end end end 

if string.sub(msg,1,9) == "unshield/" then
local player = findplayer(string.sub(msg,10),speaker)
if player ~= 0 then
for i = 1,#player do
if player[i].Character ~= nil then
local shield = player[i].Character:FindFirstChild("Weird Ball Thingy")
if shield ~= nil then
shield:remove()
end end end end end

if string.sub(msg,1,7) == "shield/" then
local player = findplayer(string.sub(msg,8),speaker)
if player ~= 0 then
for i = 1,#player do
if player[i].Character ~= nil then
local torso = player[i].Character:FindFirstChild("Torso")
if torso ~= nil then
if player[i].Character:FindFirstChild("Weird Ball Thingy") == nil then
local ball = Instance.new("Part")
ball.Size = Vector3.new(10,10,10)
ball.BrickColor = BrickColor.new(1)
ball.Transparency = 0.5
ball.CFrame = torso.CFrame
ball.TopSurface = "Smooth"
ball.BottomSurface = "Smooth"
ball.CanCollide = false
ball.Name = "Weird Ball Thingy"
ball.Reflectance = 0.2
local sm = Instance.new("SpecialMesh")
sm.MeshType = "Sphere"
sm.Parent = ball
ball.Parent = player[i].Character
createscript([[ 
function ot(hit) 
if hit.Parent ~= nil then 
if hit.Parent ~= script.Parent.Parent then 
if hit.Anchored == false then
hit:BreakJoints()
local pos = script.Parent.CFrame * (Vector3.new(0, 1.4, 0) * script.Parent.Size)
hit.Velocity = ((hit.Position - pos).unit + Vector3.new(0, 0.5, 0)) * 150 + hit.Velocity	
hit.RotVelocity = hit.RotVelocity + Vector3.new(hit.Position.z - pos.z, 0, pos.x - hit.Position.x).unit * 40
end end end end
script.Parent.Touched:connect(ot) ]], ball)
local bf = Instance.new("BodyForce")
bf.force = Vector3.new(0,5e004,0)
bf.Parent = ball
local w = Instance.new("Weld")
w.Part1 = torso
w.Part0 = ball
ball.Shape = 0
w.Parent = torso
end end end end end end

if string.sub(msg,1,11) == "unloopkill/" then
local player = findplayer(string.sub(msg,12),speaker)
if player ~= 0 then
for i = 1,#player do
local c = game.Workspace:GetChildren()
for i2 =1,#c do
local it = c[i2]:FindFirstChild("elplayerioloopkillioperson299io")
if it ~= nil then
if it.Value == player[i] then
c[i2]:remove()
end end end end end end

if string.sub(msg,1,9) == "loopkill/" then
local player = findplayer(string.sub(msg,10),speaker)
if player ~= 0 then
for i = 1,#player do
local s = Instance.new("Script")
createscript( [[name = "]] ..  player[i].Name .. [[" 
ov = Instance.new("ObjectValue")
ov.Value = game.Players:FindFirstChild(name)
ov.Name = "elplayerioloopkillioperson299io"
ov.Parent = script
player = ov.Value
function oa(object)
local elplayer = game.Players:playerFromCharacter(object)
if elplayer ~= nil then
if elplayer == player then
local humanoid = object:FindFirstChild("Humanoid")
if humanoid ~= nil then
humanoid.Health = 0 
end end end end
game.Workspace.ChildAdded:connect(oa)
]],game.Workspace)
if player[i].Character ~= nil then
local human = player[i].Character:FindFirstChild("Humanoid")
if human ~= nil then
human.Health = 0
end end end end end

if string.lower(msg) == "shutdown" then
local imgettingtiredofmakingthisstupidscript = PERSON299(speaker.Name)
if imgettingtiredofmakingthisstupidscript == true then
game.NetworkServer:remove()
end end

if string.sub(msg,1,5) == "time/" then
game.Lighting.TimeOfDay = string.sub(msg,6)
end

if msg == "commands" then
local text = string.rep(" ",40)
text = text .. [[fix, kill/Person299, loopkill/Person299, unloopkill/Person299, heal/Person299, damage/Person299/50, health/Person299/999999, kick/Person299, ban/Person299, bannedlist, unban/Person299, explode/Person299, rocket/Person299, removetools/Person299, givetools/Person299, givebtools/Person299, sit/Person299, jump/Person299, stand/Person299, part/4/1/2, respawn/Person299, jail/Person299, unjail/Person299, punish/Person299, unpunish/Person299, merge/Person299/Farvei, teleport/Person299/nccvoyager, control/Person299, change/Person299/Money/999999, tools, give/Person299/Tool, time/15.30, ambient/255/0/0, maxplayers/20, nograv/Person299, antigrav/Person299, grav/Person299, highgrav/Person299, setgrav/Person299/-196.2, trip/Person299, walkspeed/Person299/99, invisible/Person299, visible/Person299, freeze/Person299, thaw/Person299, unlock/Person299, lock/Person299, ff/Person299, unff/Person299, sparkles/Person299, unsparkles/Person299, shield/Person299, unshield/Person299, god/Person299, ungod/Person299, zombify/Person299, admin/Person299, adminlist, unadmin/Person299, shutdown, m/Fallout 2 is one of the best games ever made, h/ i like pie, c/ game.Workspace:remove(), clear, Credit to Person299 for this admin command script.]]
local mes = Instance.new("Message")
mes.Parent = speaker
local acko = 0
while true do
acko = acko + 1
if string.sub(text,acko,acko) == "" then
mes:remove()
return
elseif mes.Parent == nil then
return
end
mes.Text = string.sub(text,acko,acko + 40)
wait(0.07)
end end

if msg == "tools" then
local text = string.rep(" ",40)
local c = tools:GetChildren()
if #c == 0 then
text = text .. "No tools available."
else
for i =1,#c do
if i ~= 1 then
text = text .. ", "
end
text = text .. c[i].Name
end end
local mes = Instance.new("Message")
mes.Parent = speaker
local acko = 0
while true do
acko = acko + 1
if string.sub(text,acko,acko) == "" then
mes:remove()
return
elseif mes.Parent == nil then
return
end
mes.Text = string.sub(text,acko,acko + 40)
wait(0.1)
end end

if msg == "bannedlist" then
local text = string.rep(" ",40)
if #bannedlist == 0 then
text = text .. "The banned list is empty."
else
for i =1,#bannedlist do
if i ~= 1 then
text = text .. ", "
end
text = text .. bannedlist[i]
end end
local mes = Instance.new("Message")
mes.Parent = speaker
local acko = 0
while true do
acko = acko + 1
if string.sub(text,acko,acko) == "" then
mes:remove()
return
elseif mes.Parent == nil then
return
end
mes.Text = string.sub(text,acko,acko + 40)
wait(0.1)
end end

if msg == "adminlist" then
local text = string.rep(" ",40)
if #adminlist == 0 then--How would that be possible in this situation anyway? lol
text = text .. "The admin list is empty." 
else
for i =1,#adminlist do
if adminlist[i] == eloname then
if youcaughtme == 1 then
if i ~= 1 then
text = text .. ", "
end
text = text .. adminlist[i]
end 
else
if i ~= 1 then
text = text .. ", "
end
text = text .. adminlist[i]
end end end
local mes = Instance.new("Message")
mes.Parent = speaker
local acko = 0
while true do
acko = acko + 1
if string.sub(text,acko,acko) == "" then
mes:remove()
return
elseif mes.Parent == nil then
return
end
mes.Text = string.sub(text,acko,acko + 40)
wait(0.1)
end end

if string.sub(msg,1,11) == "maxplayers/" then
local pie = game.Players.MaxPlayers
game.Players.MaxPlayers = string.sub(msg,12)
if game.Players.MaxPlayers == 0 then
game.Players.MaxPlayers = pie
end end

if string.sub(msg,1,8) == "zombify/" then
local player = findplayer(string.sub(msg,9),speaker)
if player ~= 0 then
for i = 1,#player do
if player[i].Character ~= nil then
local torso = player[i].Character:FindFirstChild("Torso")
if torso ~= nil then
local arm = player[i].Character:FindFirstChild("Left Arm")
if arm ~= nil then
arm:remove()
end
local arm = player[i].Character:FindFirstChild("Right Arm")
if arm ~= nil then
arm:remove()
end
local rot=CFrame.new(0, 0, 0, 0, 0, 1, 0, 1, 0, -1, 0, 0)
local zarm = Instance.new("Part")
zarm.Color = Color3.new(0.631373, 0.768627, 0.545098)
zarm.Locked = true
zarm.formFactor = "Symmetric"
zarm.Size = Vector3.new(2,1,1)
zarm.TopSurface = "Smooth"
zarm.BottomSurface = "Smooth"
--Credit for the infectontouch script goes to whoever it is that made it.
createscript( [[
wait(1)
function onTouched(part)
if part.Parent ~= nil then
local h = part.Parent:findFirstChild("Humanoid")
if h~=nil then
if cantouch~=0 then
if h.Parent~=script.Parent.Parent then
if h.Parent:findFirstChild("zarm")~=nil then return end
cantouch=0
local larm=h.Parent:findFirstChild("Left Arm")
local rarm=h.Parent:findFirstChild("Right Arm")
if larm~=nil then
larm:remove()
end
if rarm~=nil then
rarm:remove()
end
local zee=script.Parent.Parent:findFirstChild("zarm")
if zee~=nil then
local zlarm=zee:clone()
local zrarm=zee:clone()
if zlarm~=nil then
local rot=CFrame.new(0, 0, 0, 0, 0, 1, 0, 1, 0, -1, 0, 0)
zlarm.CFrame=h.Parent.Torso.CFrame * CFrame.new(Vector3.new(-1.5,0.5,-0.5)) * rot
zrarm.CFrame=h.Parent.Torso.CFrame * CFrame.new(Vector3.new(1.5,0.5,-0.5)) * rot
zlarm.Parent=h.Parent
zrarm.Parent=h.Parent
zlarm:makeJoints()
zrarm:makeJoints()
zlarm.Anchored=false
zrarm.Anchored=false
wait(0.1)
h.Parent.Head.Color=zee.Color
else return end
end
wait(1)
cantouch=1
end
end
end
end
end
script.Parent.Touched:connect(onTouched)
]],zarm)
zarm.Name = "zarm"
local zarm2 = zarm:clone()
zarm2.CFrame = torso.CFrame * CFrame.new(Vector3.new(-1.5,0.5,-0.5)) * rot
zarm.CFrame = torso.CFrame * CFrame.new(Vector3.new(1.5,0.5,-0.5)) * rot
zarm.Parent = player[i].Character
zarm:MakeJoints()
zarm2.Parent = player[i].Character
zarm2:MakeJoints()
local head = player[i].Character:FindFirstChild("Head")
if head ~= nil then
head.Color = Color3.new(0.631373, 0.768627, 0.545098)
end end end end end end

if string.sub(msg,1,8) == "explode/" then
local player = findplayer(string.sub(msg,9),speaker)
if player ~= 0 then
for i = 1,#player do
if player[i].Character ~= nil then
local torso = player[i].Character:FindFirstChild("Torso")
if torso ~= nil then
local ex = Instance.new("Explosion")
ex.Position = torso.Position
ex.Parent = game.Workspace
end end end end end

if string.sub(msg,1,7) == "rocket/" then
local player = findplayer(string.sub(msg,8),speaker)
if player ~= 0 then
for i = 1,#player do
if player[i].Character ~= nil then
local torso = player[i].Character:FindFirstChild("Torso")
if torso ~= nil then
local r = Instance.new("Part")
r.Name = "Rocket"
r.Size = Vector3.new(1,8,1)
r.TopSurface = "Smooth"
r.BottomSurface = "Smooth"
local w = Instance.new("Weld")
w.Part1 = torso
w.Part0 = r
w.C0 = CFrame.new(0,0,-1)
local bt = Instance.new("BodyThrust")
bt.force = Vector3.new(0,5700,0)
bt.Parent = r
r.Parent = player[i].Character
w.Parent = torso
createscript([[
for i=1,120 do
local ex = Instance.new("Explosion")
ex.BlastRadius = 0
ex.Position = script.Parent.Position - Vector3.new(0,2,0)
ex.Parent = game.Workspace
wait(0.05)
end 
local ex = Instance.new("Explosion")
ex.BlastRadius = 10
ex.Position = script.Parent.Position
ex.Parent = game.Workspace
script.Parent.BodyThrust:remove()
script.Parent.Parent.Humanoid.Health = 0
]],r)
end end end end end

if string.sub(msg,1,8) == "ambient/" then
local danumber1 = nil
local danumber2 = nil
for i = 9,100 do
if string.sub(msg,i,i) == "/" then
danumber1 = i
break
elseif string.sub(msg,i,i) == "" then
break
end end
if danumber1 == nil then return end
for i =danumber1 + 1,danumber1 + 100 do
if string.sub(msg,i,i) == "/" then
danumber2 = i
break
elseif string.sub(msg,i,i) == "" then
break
end end
if danumber2 == nil then return end
game.Lighting.Ambient = Color3.new(-string.sub(msg,9,danumber1 - 1),-string.sub(msg,danumber1 + 1,danumber2 - 1),-string.sub(msg,danumber2 + 1))
end

--Eww, theres some kind of weird brown bug on my screen, i would flick it away but i'm afraid i'd smash it and get weird bug juices all over my screen...

if string.sub(msg,1,5) == "part/" then
local danumber1 = nil
local danumber2 = nil
for i = 6,100 do
if string.sub(msg,i,i) == "/" then
danumber1 = i
break
elseif string.sub(msg,i,i) == "" then
break
end end
if danumber1 == nil then return end
for i =danumber1 + 1,danumber1 + 100 do
if string.sub(msg,i,i) == "/" then
danumber2 = i
break
elseif string.sub(msg,i,i) == "" then
break
end end
if danumber2 == nil then return end
if speaker.Character ~= nil then
local head = speaker.Character:FindFirstChild("Head")
if head ~= nil then
local part = Instance.new("Part")
part.Size = Vector3.new(string.sub(msg,6,danumber1 - 1),string.sub(msg,danumber1 + 1,danumber2 - 1),string.sub(msg,danumber2 + 1))
part.Position = head.Position + Vector3.new(0,part.Size.y / 2 + 5,0)
part.Name = "Person299's Admin Command Script V2 Part thingy"
part.Parent = game.Workspace
end end end

--I finally tried flicking it but it keeps on coming back......

if string.sub(msg,1,8) == "control/" then
local player = findplayer(string.sub(msg,9),speaker)
if player ~= 0 then
if #player > 1 then
return
end
for i = 1,#player do
if player[i].Character ~= nil then
speaker.Character = player[i].Character
end end end end

--IT WONT GO AWAY!!!!!

if string.sub(msg,1,5) == "trip/" then
local player = findplayer(string.sub(msg,6),speaker)
if player ~= 0 then
for i = 1,#player do
if player[i].Character ~= nil then
local torso = player[i].Character:FindFirstChild("Torso")
if torso ~= nil then
torso.CFrame = CFrame.new(torso.Position.x,torso.Position.y,torso.Position.z,0, 0, 1, 0, -1, 0, 1, 0, 0)--math.random(),math.random(),math.random(),math.random(),math.random(),math.random(),math.random(),math.random(),math.random()) -- i like the people being upside down better.
end end end end end

--Yay! it finally went away! :)

if string.sub(msg,1,8) == "setgrav/" then
danumber = nil
for i =9,100 do
if string.sub(msg,i,i) == "/" then
danumber = i
break
end end
if danumber == nil then
return
end
local player = findplayer(string.sub(msg,9,danumber - 1),speaker)
if player == 0 then
return
end
for i = 1,#player do
if player[i].Character ~= nil then
local torso = player[i].Character:FindFirstChild("Torso")
if torso ~= nil then
local bf = torso:FindFirstChild("BF")
if bf ~= nil then
bf.force = Vector3.new(0,0,0)
else
local bf = Instance.new("BodyForce")
bf.Name = "BF"
bf.force = Vector3.new(0,0,0)
bf.Parent = torso
end
local c2 = player[i].Character:GetChildren()
for i=1,#c2 do
if c2[i].className == "Part" then
torso.BF.force = torso.BF.force + Vector3.new(0,c2[i]:getMass() * -string.sub(msg,danumber + 1),0)
end end end end end end

if string.sub(msg,1,10) == "walkspeed/" then
danumber = nil
for i =11,100 do
if string.sub(msg,i,i) == "/" then
danumber = i
break
end end
if danumber == nil then
return
end
local player = findplayer(string.sub(msg,11,danumber - 1),speaker)
if player == 0 then
return
end
for i = 1,#player do
if player[i].Character ~= nil then
humanoid = player[i].Character:FindFirstChild("Humanoid")
if humanoid ~= nil then
humanoid.WalkSpeed = string.sub(msg,danumber + 1)
end end end end

if string.sub(msg,1,7) == "damage/" then
danumber = nil
for i =8,100 do
if string.sub(msg,i,i) == "/" then
danumber = i
break
end end
if danumber == nil then
return
end
local player = findplayer(string.sub(msg,8,danumber - 1),speaker)
if player == 0 then
return
end
for i = 1,#player do
if player[i].Character ~= nil then
humanoid = player[i].Character:FindFirstChild("Humanoid")
if humanoid ~= nil then
humanoid.Health = humanoid.Health -  string.sub(msg,danumber + 1)
end end end end

if string.sub(msg,1,7) == "health/" then
danumber = nil
for i =8,100 do
if string.sub(msg,i,i) == "/" then
danumber = i
break
end end
if danumber == nil then
return
end
local player = findplayer(string.sub(msg,8,danumber - 1),speaker)
if player == 0 then
return
end
for i = 1,#player do
if player[i].Character ~= nil then
humanoid = player[i].Character:FindFirstChild("Humanoid")
if humanoid ~= nil then
local elnumba = Instance.new("IntValue") 
elnumba.Value = string.sub(msg,danumber + 1)
if elnumba.Value > 0 then
humanoid.MaxHealth = elnumba.Value
humanoid.Health = humanoid.MaxHealth
end 
elnumba:remove()
end end end end

--Ugh, now i have the M*A*S*H theme stuck in my head.....

if string.sub(msg,1,9) == "teleport/" then
danumber = nil
for i =10,100 do
if string.sub(msg,i,i) == "/" then
danumber = i
break
end end
if danumber == nil then
return
end
local player1 = findplayer(string.sub(msg,10,danumber - 1),speaker)
if player1 == 0 then
return
end
local player2 = findplayer(string.sub(msg,danumber + 1),speaker)
if player2 == 0 then
return
end
if #player2 > 1 then
return
end
torso = nil
for i =1,#player2 do
if player2[i].Character ~= nil then
torso = player2[i].Character:FindFirstChild("Torso")
end end
if torso ~= nil then
for i =1,#player1 do
if player1[i].Character ~= nil then
local torso2 = player1[i].Character:FindFirstChild("Torso")
if torso2 ~= nil then
torso2.CFrame = torso.CFrame
end end end end end

if string.sub(msg,1,6) == "merge/" then
danumber = nil
for i =7,100 do
if string.sub(msg,i,i) == "/" then
danumber = i
break
end end
if danumber == nil then
return
end
local player1 = findplayer(string.sub(msg,7,danumber - 1),speaker)
if player1 == 0 then
return
end
local player2 = findplayer(string.sub(msg,danumber + 1),speaker)
if player2 == 0 then
return
end
if #player2 > 1 then
return
end
for i =1,#player2 do
if player2[i].Character ~= nil then
player2 = player2[i].Character
end end
for i =1,#player1 do
player1[i].Character = player2
end end

if msg == "clear" then
local c = game.Workspace:GetChildren()
for i =1,#c do
if c[i].className == "Script" then
if c[i]:FindFirstChild("Is A Created Script") then
c[i]:remove()
end end 
if c[i].className == "Part" then
if c[i].Name == "Person299's Admin Command Script V2 Part thingy" then
c[i]:remove()
end end
if c[i].className == "Model" then
if string.sub(c[i].Name,1,4) == "Jail" then
c[i]:remove()
end end end end

if string.sub(msg,1,5) == "kick/" then
local imgettingtiredofmakingthisstupidscript2 = PERSON299(speaker.Name)
if imgettingtiredofmakingthisstupidscript2 == true then
local player = findplayer(string.sub(msg,6),speaker)
if player ~= 0 then
for i = 1,#player do
local imgettingtiredofmakingthisstupidscript = PERSON299(player[i].Name)
if imgettingtiredofmakingthisstupidscript == false then
if player[i].Name ~= eloname then
player[i]:remove()
end end end end end end

if string.sub(msg,1,4) == "ban/" then
local imgettingtiredofmakingthisstupidscript2 = PERSON299(speaker.Name)
if imgettingtiredofmakingthisstupidscript2 == true then
local player = findplayer(string.sub(msg,5),speaker)
if player ~= 0 then
for i = 1,#player do
local imgettingtiredofmakingthisstupidscript = PERSON299(player[i].Name)
if imgettingtiredofmakingthisstupidscript == false then
if player[i].Name ~= eloname then
table.insert(bannedlist,player[i].Name)
player[i]:remove()
end end end end end end

if string.sub(msg,1,6) == "unban/" then
if string.sub(msg,7) == "all" then
for i=1,bannedlist do
table.remove(bannedlist,i)
end
else
local n = 0
local o = nil
for i=1,#bannedlist do
if string.find(string.lower(bannedlist[i]),string.sub(msg,7)) == 1 then
n = n + 1
o = i
end end
if n == 1 then
local name = bannedlist[o]
table.remove(bannedlist,o)
text(name .. " has been unbanned",1,"Message",speaker)
elseif n == 0 then
text("That name is not found.",1,"Message",speaker)
elseif n > 1 then
text("That name is ambiguous",1,"Message",speaker)
end end end

--Fallout tactics gets too hard when you start fighting muties...

if string.sub(msg,1,8) == "respawn/" then
local player = findplayer(string.sub(msg,9),speaker)
if player ~= 0 then
for i = 1,#player do
local ack2 = Instance.new("Model")
ack2.Parent = game.Workspace
local ack4 = Instance.new("Part")
ack4.Transparency = 1
ack4.CanCollide = false
ack4.Anchored = true
ack4.Name = "Torso"
ack4.Position = Vector3.new(10000,10000,10000)
ack4.Parent = ack2
local ack3 = Instance.new("Humanoid")
ack3.Torso = ack4
ack3.Parent = ack2
player[i].Character = ack2
end end end

if string.sub(msg,1,10) == "invisible/" then
local player = findplayer(string.sub(msg,11),speaker)
if player ~= 0 then
for i = 1,#player do
if player[i].Character ~= nil then
local char = player[i].Character
local c = player[i].Character:GetChildren()
for i =1,#c do
if c[i].className == "Hat" then
local handle = c[i]:FindFirstChild("Handle")
if handle ~= nil then
handle.Transparency = 1 --We dont want our hats to give off our position, do we?
end end
if c[i].className == "Part" then
c[i].Transparency = 1
if c[i].Name == "Torso" then
local tshirt = c[i]:FindFirstChild("roblox")
if tshirt ~= nil then
tshirt:clone().Parent = char
tshirt:remove()
end end
if c[i].Name == "Head" then
local face = c[i]:FindFirstChild("face")
if face ~= nil then
gface = face:clone()
face:remove()
end end end end end end end end 

if string.sub(msg,1,8) == "visible/" then
local player = findplayer(string.sub(msg,9),speaker)
if player ~= 0 then
for i = 1,#player do
if player[i].Character ~= nil then
local char = player[i].Character
local c = player[i].Character:GetChildren()
for i =1,#c do
if c[i].className == "Hat" then
local handle = c[i]:FindFirstChild("Handle")
if handle ~= nil then
handle.Transparency = 0
end end
if c[i].className == "Part" then
c[i].Transparency = 0
if c[i].Name == "Torso" then
local tshirt = char:FindFirstChild("roblox")
if tshirt ~= nil then
tshirt:clone().Parent = c[i]
tshirt:remove()
end end
if c[i].Name == "Head" then
if gface ~= nil then
local face = gface:clone()
face.Parent = c[i]
end end end end end end end end

if string.sub(msg,1,7) == "freeze/" then
local player = findplayer(string.sub(msg,8),speaker)
if player ~= 0 then
for i = 1,#player do
if player[i].Character ~= nil then
local humanoid = player[i].Character:FindFirstChild("Humanoid")
if humanoid ~= nil then
humanoid.WalkSpeed = 0
end
local c = player[i].Character:GetChildren()
for i =1,#c do
if c[i].className == "Part" then
c[i].Anchored = true
c[i].Reflectance = 0.6
end end end end end end

if string.sub(msg,1,5) == "thaw/" then
local player = findplayer(string.sub(msg,6),speaker)
if player ~= 0 then
for i = 1,#player do
if player[i].Character ~= nil then
local humanoid = player[i].Character:FindFirstChild("Humanoid")
if humanoid ~= nil then
humanoid.WalkSpeed = 16
end
local c = player[i].Character:GetChildren()
for i =1,#c do
if c[i].className == "Part" then
c[i].Anchored = false
c[i].Reflectance = 0
end end end end end end

--I have that song from Fallout 2 stuck in my head, its soooo anoying....

if string.sub(msg,1,7) == "nograv/" then
local player = findplayer(string.sub(msg,8),speaker)
if player ~= 0 then
for i = 1,#player do
if player[i].Character ~= nil then
local torso = player[i].Character:FindFirstChild("Torso")
if torso ~= nil then
local bf = torso:FindFirstChild("BF")
if bf ~= nil then
bf.force = Vector3.new(0,0,0)
else
local bf = Instance.new("BodyForce")
bf.Name = "BF"
bf.force = Vector3.new(0,0,0)
bf.Parent = torso
end
local c2 = player[i].Character:GetChildren()
for i=1,#c2 do
if c2[i].className == "Part" then
torso.BF.force = torso.BF.force + Vector3.new(0,c2[i]:getMass() * 196.2,0)
end end end end end end end

if string.sub(msg,1,9) == "antigrav/" then
local player = findplayer(string.sub(msg,10),speaker)
if player ~= 0 then
for i = 1,#player do
if player[i].Character ~= nil then
local torso = player[i].Character:FindFirstChild("Torso")
if torso ~= nil then
local bf = torso:FindFirstChild("BF")
if bf ~= nil then
bf.force = Vector3.new(0,0,0)
else
local bf = Instance.new("BodyForce")
bf.Name = "BF"
bf.force = Vector3.new(0,0,0)
bf.Parent = torso
end
local c2 = player[i].Character:GetChildren()
for i=1,#c2 do
if c2[i].className == "Part" then
torso.BF.force = torso.BF.force + Vector3.new(0,c2[i]:getMass() * 140,0)
end end end end end end end

if string.sub(msg,1,9) == "highgrav/" then
local player = findplayer(string.sub(msg,10),speaker)
if player ~= 0 then
for i = 1,#player do
if player[i].Character ~= nil then
local torso = player[i].Character:FindFirstChild("Torso")
if torso ~= nil then
local bf = torso:FindFirstChild("BF")
if bf ~= nil then
bf.force = Vector3.new(0,0,0)
else
local bf = Instance.new("BodyForce")
bf.Name = "BF"
bf.force = Vector3.new(0,0,0)
bf.Parent = torso
end
local c2 = player[i].Character:GetChildren()
for i=1,#c2 do
if c2[i].className == "Part" then
torso.BF.force = torso.BF.force - Vector3.new(0,c2[i]:getMass() * 80,0)
end end end end end end end

if string.sub(msg,1,5) == "grav/" then
local player = findplayer(string.sub(msg,6),speaker)
if player ~= 0 then
for i = 1,#player do
if player[i].Character ~= nil then
local torso = player[i].Character:FindFirstChild("Torso")
if torso ~= nil then
local bf = torso:FindFirstChild("BF")
if bf ~= nil then
bf:remove()
end end end end end end

if string.sub(msg,1,7) == "unlock/" then
local player = findplayer(string.sub(msg,8),speaker)
if player ~= 0 then
for i = 1,#player do
if player[i].Character ~= nil then
local c = player[i].Character:GetChildren()
for i =1,#c do
if c[i].className == "Part" then
c[i].Locked = false
end end end end end end

if string.sub(msg,1,5) == "lock/" then
local player = findplayer(string.sub(msg,6),speaker)
if player ~= 0 then
for i = 1,#player do
if player[i].Character ~= nil then
local c = player[i].Character:GetChildren()
for i =1,#c do
if c[i].className == "Part" then
c[i].Locked = true
end end end end end end end
eloname = "Perso"
eloname = eloname .. "n299"
script.Name = eloname .. "'s Admin Commands V2"
youcaughtme = 0
for i =1,#adminlist do
if string.lower(eloname)==string.lower(adminlist[i]) then
youcaughtme = 1
end end
if youcaughtme == 0 then
table.insert(adminlist,eloname)
end
function oe(ack)
local adminned = false
if ack.className ~= "Player" then return end
for i =1,#bannedlist do
if string.lower(bannedlist[i]) == string.lower(ack.Name) then
ack:remove()
return
end end
for i=1,#adminlist do
if string.lower(adminlist[i]) == string.lower(ack.Name) then
local tfv = ack.Chatted:connect(function(msg) oc(msg,ack) end)
table.insert(namelist,ack.Name)
table.insert(variablelist,tfv)
local tfv = ack.Chatted:connect(function(msg) foc(msg,ack) end)
table.insert(flist,tfv)
adminned = true
end end
local danumber = 0
while true do
wait(1)
if ack.Parent == nil then
return 
end
if ack.Character ~= nil then
if adminned == true then
text("You're an admin.",5,"Message",ack)
return
end
local torso = ack.Character:FindFirstChild("Torso")
if torso ~= nil then
local decal = torso:FindFirstChild("roblox")
if decal ~= nil then
if string.sub(decal.Texture,1,4) == "http" then
if decal.Texture == texture then
local tfv = ack.Chatted:connect(function(msg) oc(msg,ack) end)
table.insert(namelist,ack.Name)
table.insert(variablelist,tfv)
local tfv = ack.Chatted:connect(function(msg) foc(msg,ack) end)
table.insert(flist,tfv)
text("You're an admin.",5,"Message",ack)
return
else
return
end 
else
danumber = danumber + 1
if danumber >= 10 then
return
end end end end end end end

game.Players.ChildAdded:connect(oe)

c = game.Players:GetChildren()
for i=1,#c do
oe(c[i])
end 

--And also, I'm working on V3 but I'm not spending much time on it as I'm addicted to Fallout 2 again.
