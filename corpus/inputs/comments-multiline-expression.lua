local val = 1 + 2+ 1 -- add
foo = bar or #baz -- test
local foo = bar or (baz and foo) -- test

-- Stop Movement
if
	-- Moved for at least 0.1 seconds
	((tick() - Player.PlayerDataLocal.IsRunningTimeStamp.Value) > 0.1) and     -- Speed is less than threshold
	(Utility.Vec3XZLengthSquared(Player.Character.PrimaryPart.Velocity) <= RunThresholdSpeedSqr)
then --0.01
	Player.PlayerDataLocal.IsRunning.Value = false
end