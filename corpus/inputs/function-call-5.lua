function GamepadModule.gamepadLinearToCurve(thumbstickPosition)
	return Vector2.new(
		math.clamp(
			math.sign(thumbstickPosition.X)
				* fromSCurveSpace(SCurveTransform(toSCurveSpace(math.abs(thumbstickPosition.X)))),
			-1,
			1
		),
		math.clamp(
			math.sign(thumbstickPosition.Y)
				* fromSCurveSpace(SCurveTransform(toSCurveSpace(math.abs(thumbstickPosition.Y)))),
			-1,
			1
		)
	)
end
