-- https://github.com/JohnnyMorganz/StyLua/issues/543
-- no need to expand

call(item, --[[param=]] false)

call(--[[ we don't use it ]]true)

call(
	--[[
		this comment spans
		multiple lines
	]]
	false
)

x(
	true,
	90210
	--[[
		color wheel is time-reversed
	]],
	--[[ frobnikate the widget ]]
	false,
	true
	--[[ spin the tesla coils ]]
)
