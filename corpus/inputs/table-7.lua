-- https://github.com/JohnnyMorganz/StyLua/issues/436
local OffsetEnum = {aValue = 10, anotherValue = 11, yetAnotherValue = 12, reset = 0, postReset = 1, aaaaaaaaaaa = true}

local OffsetEnum = { aValue = 10, anotherValue = 11, yetAnotherValue = 12, reset = 0, postReset = 1, aaaaaaaaa = true }
