-- https://github.com/JohnnyMorganz/StyLua/issues/456
do
	do
		WallCollisionPart.Position = Vector3.new(
			WallCollisionPart.Position.X,
			(
				(GeneratedTower.Top.PrimaryPart.Position.Y - GeneratedTower.Top.PrimaryPart.Size.Y / 2)
				+ (GeneratedTower.Bottom.PrimaryPart.Position.Y - GeneratedTower.Bottom.PrimaryPart.Size.Y / 2)
			) / 2,
			WallCollisionPart.Position.Z
		)

		WallCollisionPart.Position = Vector3.new(
			WallCollisionPart.Position.X,
			(
				(GeneratedTower.Top.PrimaryPart.Position.Y - GeneratedTower.Top.PrimaryPart.Size.Y / 2)
				+ (GeneratedTower.Bottom.PrimaryPart.Position.Y - GeneratedTower.Bottom.PrimaryPart.Size.Y / 2)
			) / AComplexFunctionCall(withAReallyLongArgument, "this is a complex function call message", anotherReallyLongArgument),
			WallCollisionPart.Position.Z
		)

		WallCollisionPart.Position = Vector3.new(
			WallCollisionPart.Position.X,
			AComplexFunctionCall(withAReallyLongArgument, "this is a complex function call message", anotherReallyLongArgument) /
			(
				(GeneratedTower.Top.PrimaryPart.Position.Y - GeneratedTower.Top.PrimaryPart.Size.Y / 2)
				+ (GeneratedTower.Bottom.PrimaryPart.Position.Y - GeneratedTower.Bottom.PrimaryPart.Size.Y / 2)
			),
			WallCollisionPart.Position.Z
		)
	end
end
