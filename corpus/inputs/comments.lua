--[[Testing this]]
local function foo(bar, baz) print(bar,baz) end --this is a nice function  
local test = {}--this comment should stay  


local y = foo
-- comment line 1
-- comment line 2, should not be split from above comment
local x = test