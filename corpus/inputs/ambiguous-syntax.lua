local baz = foo(bar);
(foo and x or y)(bar)

function foobar()
	local baz = foo(bar);
	(baz and x or y)(bar)
end
