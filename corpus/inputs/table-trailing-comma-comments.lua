-- https://github.com/JohnnyMorganz/StyLua/issues/547
local too = {
	x,		-- string
	y		-- string
}
