if someReallyLongCondition and someOtherReallyLongCondition and somethingElse and someReallyLongCondition and someOtherReallyLongCondition and somethingElse then
    print("foo")
end

foo = someReallyLongCondition * someOtherReallyLongCondition * somethingElse * someReallyLongCondition * someOtherReallyLongCondition * somethingElse

local foo = someReallyLongCondition and someOtherReallyLongCondition == foo and somethingElse and someReallyLongCondition and someOtherReallyLongCondition and somethingElse

repeat print("foo") until someReallyLongCondition and someOtherReallyLongCondition and somethingElse and someReallyLongCondition and someOtherReallyLongCondition and somethingElse

while someReallyLongCondition and someOtherReallyLongCondition and somethingElse and someReallyLongCondition and someOtherReallyLongCondition and somethingElse do
    print("foo")
end

if foo(aVeryLongValue, anotherVeryLongValue, someEvenMoreLongValues, evenMoreLongValues, whenWillTheseLongValuesEverEnd) and someOtherReallyLongCondition and somethingElse and someReallyLongCondition and someOtherReallyLongCondition and somethingElse then
    print("foo")
end

baz(first_arg___ooooooooooooooooooooooooooooooooooooooooooo, second_arg___qqqqqqqqqqqqqqqqqqqqqqqqqqqqqqqqqqqqqqqqqqq, function() if
			multiline_if___aaaaaaaaaaaaaaaaaaaaaaaaaaaaaaaaaaaaaaaaaaaaaaaaaaaaaa
			and multiline_if___bbbbbbbbbbbbbbbbbbbbbbbbbbbbbbbbbbbbbbbbbbbbbbbbbbbbb
	then
			foo()
		end
	end
)