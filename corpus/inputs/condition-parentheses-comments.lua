-- https://github.com/JohnnyMorganz/StyLua/issues/389
repeat
	x = x + 1
until (x + y < 2) -- comment
