function foo(defaultExport)
	if defaultExport == nil then
		print(
			"lazy: Expected the result of a dynamic import() call. "
				.. "Instead received: %s\n\nYour code should look like: \n  "
				-- Break up imports to avoid accidentally parsing them as dependencies.
				-- ROBLOX deviation: Lua syntax in message
				.. "local MyComponent = lazy(function() => req"
				.. "quire('script.Parent.MyComponent') end)",
			moduleObject
		)
	end
end

function bar(defaultExport)
	if defaultExport == nil then
		print(
			"lazy: Expected the result of a dynamic import() call. " ..
				"Instead received: %s\n\nYour code should look like: \n  " ..
				-- Break up imports to avoid accidentally parsing them as dependencies.
				-- ROBLOX deviation: Lua syntax in message
	      "local MyComponent = lazy(function() => req" ..
				"quire('script.Parent.MyComponent') end)",
			moduleObject
		)
	end
end