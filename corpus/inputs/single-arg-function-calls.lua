do
	do
		do
			do
				do
					do
						jestExpect(ReactIs.typeOf(React.createElement(React.Profiler, { id = "foo", onRender = jest.fn() }))).toBe(ReactIs.Profiler)
					end
				end
			end
		end
	end
end
