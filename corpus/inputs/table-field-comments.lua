-- https://github.com/JohnnyMorganz/StyLua/issues/471
local foo = {
	x = props.Item.Type == "Crystal"
		and utf8.char(0x221e) -- Infinite symbol
		or nil,
}
