do
	local HitPart, HitPoint, HitNormal, HitMaterial = nil, Ray.Origin + Ray.Direction, Vector3.new(0, 1, 0), Enum.Material.Air
end