-- https://github.com/JohnnyMorganz/StyLua/issues/432: shape was not correctly reset for the new line of hanging expression
local function test()
	return "test"
		.. "test"
		.. "test"
		.. "test"
		.. "test"
		.. "test"
		.. "test"
		.. "test"
		.. "test"
		.. "test"
		.. "test"
		.. "test"
		.. "test"
		.. "test"
		.. "test"
		.. "test"
		.. "test"
		.. "test"
		.. foo(long_function_name_aaaaaaaaaaaaaaaaaaaaaaaaaaaaaaaaa())
end
