-- https://github.com/JohnnyMorganz/StyLua/issues/579
for _, item in
	-- comment
	call()
do
end


for _, item in -- comment
	call()
do
end


for _, item in           -- comment

	call()
do
end
