function foo()
	return (
		long_variable_name
		+ long_variable_name
		+ long_variable_name
		+ long_variable_name
		+ long_variable_name
		+ long_variable_name
		+ long_variable_name
		+ long_variable_name
		+ long_variable_name
		+ long_variable_name
	), (
		long_variable_name
		+ long_variable_name
		+ long_variable_name
		+ long_variable_name
		+ long_variable_name
		+ long_variable_name
		+ long_variable_name
		+ long_variable_name
		+ long_variable_name
		+ long_variable_name
	)
end

function foo()
	return foo and bar or baz, (
		long_variable_name
		+ long_variable_name
		+ long_variable_name
		+ long_variable_name
		+ long_variable_name
		+ long_variable_name
		+ long_variable_name
		+ long_variable_name
		+ long_variable_name
		+ long_variable_name
	)
end

function foo()
	return not (
		long_variable_name
		+ long_variable_name
		+ long_variable_name
		+ long_variable_name
		+ long_variable_name
		+ long_variable_name
		+ long_variable_name
		+ long_variable_name
		+ long_variable_name
		+ long_variable_name
	)
end
