call "string" 
call {foo='bar',baz=1}  
call  (x,y, z)   