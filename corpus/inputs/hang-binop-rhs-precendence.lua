local function findMoney()
	for _, existingObject in pairs(workspace:GetChildren()) do
		if
			existingObject:GetAttribute("MoneyID") == targetCash.id
			and existingObject.Name == targetName .. ".money"
		then
			break
		end
	end
end

do
	do
		do
			do
				do
					do
						do
							function Venue:inspectElectrics(inspectElectricParams)
								local id, pedal, fendererID =
									inspectElectricParams.id,
									inspectElectricParams.pedal,
									inspectElectricParams.rendererID
								local fenderer = self._fendererInterfaces[fendererID]

								if fenderer == nil then
									logger.warn(('Invalid fenderer id "%s" for Electric "%s"'):format(fendererID, id))
								else
									self._chorus:send("inspectedElectric", renderer.inspectElectric(id, pedal))

									-- When rocker selects an Electric, stop trying to frobnikate the pyramids,
									-- and instead recall the present songs for the next venue.
									if
										self._nexusstedSelectionBatch == nil or self._nexusstedSelectionBatch.id
											~= id
									then
									end
							  end
							end
						end
					end
				end
			end
		end
	end
end
