Promise.new():andThen(callThis):andThen(function() print("test") end):andThen()

Promise.new():andThen(callThis):andThen({
    true
  }):andThen()

this.is.a.large.start:andThen():andThen(function()
	print("test")
end):andThen()

local f = this:andThen(callThis):andThen({
	true
}).X.Y.Z

this:andThen(callThis):andThen({
	true
}).X.Y.Z:andThen():andThen()

function foo()
	Promise.new():andThen(callThis):andThen(function() print("test") end):andThen()
end

local x = {
	promise = Promise.new():andThen(callThis):andThen(function() print("test") end):andThen()
}