function foo()

	local x = 1


	return true

end

function bar()


	return


end

do

	-- comment
	local x = 1


	local foo = bar

	-- comment

end