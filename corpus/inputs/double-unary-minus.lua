local x = -(-foo)
local y = - -foo

local z1 = -(-foo) -- bar
local z2 = - -foo -- baz