-- https://github.com/JohnnyMorganz/StyLua/issues/489
do
	local result = diff(
		{ test = { 1, 2, 3, 4, 5, 6, 7, 8, 9, 10 } },
		{ test = { 1, 2, 3, 4, 5, 6, 7, 8, 10, 9 } },
		options
	)
end

do
	local diff = createANewTableFromThisOne { thisIsAField = true, thisIsAnotherField = true, thisIsAFinalField = true, x = y }
end
