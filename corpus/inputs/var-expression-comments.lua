-- https://github.com/JohnnyMorganz/StyLua/issues/500
local foo = bar
  -- comment 1
  .fizz
  -- comment 2
  .buzz
