-- https://github.com/JohnnyMorganz/StyLua/issues/290
local foo = foo(

	foo,

	bar
)

local foo = foo(
	foo,

	bar
)

return function()
	call(function()
		local abortSelfPromise = abortSelf(
			function()
				return Promise.resolve(true)
			end,

			function()
				return Promise.new(function(newResolve)
					resolve = newResolve
				end)
			end
		)
	end)
end

