   while    true    do  
	print("foo")
 end