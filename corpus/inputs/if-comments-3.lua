if true then
else
end

if true then


	-- this is a comment


-- but this is another comment
	-- and another one - we should hence indent the comments overall
else
end
