local      foo    =      'bar'       
local   bar       ,       baz     = 1   ,   2    