local LoadAddOn, UnitName, GetRealmName, UnitRace, UnitFactionGroup, IsInRaid = LoadAddOn, UnitName, GetRealmName, UnitRace, UnitFactionGroup, IsInRaid

LoadAddOn, UnitName, GetRealmName, UnitRace, UnitFactionGroup, IsInRaid = LoadAddOn, UnitName, GetRealmName, UnitRace, UnitFactionGroup, IsInRaid

do
	local LoadAddOn, UnitName, GetRealmName, UnitRace, UnitFactionGroup, IsInRaid = LoadAddOn, UnitName, GetRealmName, UnitRace, UnitFactionGroup, IsInRaid
end

do
	local XOffset, YOffset, ZOffset = CFrame.new(GlobalConfiguration.TPS_CAMERA_OFFSET.X, 0, 0), CFrame.new(0, GlobalConfiguration.TPS_CAMERA_OFFSET.Y, 0), CFrame.new(0, 0, GlobalConfiguration.TPS_CAMERA_OFFSET.Z)
end