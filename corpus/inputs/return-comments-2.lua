-- https://github.com/JohnnyMorganz/StyLua/issues/662
function f()
	return a -- adoc
		, b -- bdoc
end
