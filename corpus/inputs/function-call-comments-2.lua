-- https://github.com/JohnnyMorganz/StyLua/issues/307#issuecomment-980594322
call(
	param_a -- this is cool
	, param_b
)
