-- https://github.com/JohnnyMorganz/StyLua/issues/302
return {
	foo = bar,
	foo = bar,
	foo = bar,
	foo = bar,
	foo = bar,
	foo = bar,
	foo = bar,
	foo = bar,
}, {
	bar = baz,
	bar = baz,
	bar = baz,
	bar = baz,
	bar = baz,
	bar = baz,
	bar = baz,
	bar = baz,
}
