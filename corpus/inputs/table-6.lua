-- https://github.com/JohnnyMorganz/StyLua/issues/296
aaaaaaaaaaaaaaaaaaaaaaaaaaaaaaaaaaaaaaaaaaaaaaaaaaaa({ aaaaaaaaaaaaaaaaaaaaaaaaaaaaaaaaaaaaaaaaaaaaaaaaaaaaaa = false})
aaaaaaaaaaaaaaaaaaaaaaaaaaaaaaaaaaaaaaaaaaaaaaaaaaaa({ aaaaaaaaaaaaaaaaaaaaaaaaaaaaaaaaaaaaaaaaaaaaaaaaaaaaaa = false })
