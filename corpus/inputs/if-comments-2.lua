-- https://github.com/JohnnyMorganz/StyLua/issues/254
if condition1 then
	print("Do something")

--[[
	my multiline comment
]]
elseif condition2 then
	print("Do something else")

-- my single line comment
elseif condition3 then
	print("Do some final thing")
end

if condition then
	-- this comment should be indent
elseif x == true then
-- this comment should not be indented
elseif x == true then
				-- this comment should be indented, but only by one
else
	print("hi")
end
