-- https://github.com/JohnnyMorganz/StyLua/issues/551
local test = {
	{ "http://example.com/b//c//d;p?q#blarg", "http://u:p@h.com/p/a/t/h?s#hash2", "http://u:p@h.com/p/a/t/h?s#hash2" },
}
