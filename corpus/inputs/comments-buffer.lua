local foo_result = foo( --a comment
	"oof"
)

local expr_result = 1 + 2 + 3 + 4 + 5 --a comment
	+ 6 + 6 + 8

print"text" --a comment
foo{bar = baz} -- comment

for foo, -- test
bar in 
next, -- comment
value
do
	print("test", -- comment
		"foo"
	)
end

if code == 9 -- \t
or code == 32 -- <space>
   then
    print(code)
end

return foo, -- a comment
bar