-- https://github.com/JohnnyMorganz/StyLua/issues/386
repeat x = x + 1 until z * (
	x + y -- comment
)

repeat x = x + 1 until z * (
	x + y -- comment
) < 2
