-- https://github.com/JohnnyMorganz/StyLua/issues/648
function foo(f, g, a, b, c)
	return f(a)
		or g(b and c
			-- a somewhat strange location to describe something
			or false
			-- yes, this newline might not have been intended
		)
end
