foo( -- comment
baz
)

foo(
baz, -- comment
bar
)

foo (
	baz,
	-- comment
	bar
)

foo(baz, 
bar -- comment
)

foo(baz, bar) -- comment

foo(
	-- comment
	baz,
	bar
)
