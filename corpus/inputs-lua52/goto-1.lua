for i=1,10 do if i == 1 then goto skip end end
::skip::