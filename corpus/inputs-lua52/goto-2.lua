-- http://lua-users.org/wiki/GotoStatement
::redo:: for x=1,10 do for y=1,10 do
	if not f(x,y) then goto continue end
	if not g(x,y) then goto skip end
	if not h(x,y) then goto redo end
	::continue::
  end end ::skip::