print("testing \z
	   twelve")

print("Hello \
	World")

print(`testing \z
	   twelve`)

print(`Hello \
	World`)
