local function assertEq(left, right)
	assert(typeof(left) == "string", "left is a " .. typeof(left))
	assert(typeof(right) == "string", "right is a " .. typeof(right))

	if left ~= right then
		error(string.format("%q ~= %q", left, right))
	end
end

assertEq(`hello {"world"}`, "hello world")
assertEq(`Welcome {"to"} {"Luau"}!`, "Welcome to Luau!")

assertEq(`2 + 2 = {2 + 2}`, "2 + 2 = 4")

assertEq(`{1} {2} {3} {4} {5} {6} {7}`, "1 2 3 4 5 6 7")

local combo = {5, 2, 8, 9}
assertEq(`The lock combinations are: {table.concat(combo, ", ")}`, "The lock combinations are: 5, 2, 8, 9")

assertEq(`true = {true}`, "true = true")

local name = "Luau"
assertEq(`Welcome to {
	name
}!`, "Welcome to Luau!")

local nameNotConstantEvaluated = (function() return "Luau" end)()
assertEq(`Welcome to {nameNotConstantEvaluated}!`, "Welcome to Luau!")

assertEq(`This {localName} does not exist`, "This nil does not exist")

assertEq(`Welcome to \
{name}!`, "Welcome to \nLuau!")

assertEq(`empty`, "empty")

assertEq(`Escaped brace: \{}`, "Escaped brace: {}")
assertEq(`Escaped brace \{} with {"expression"}`, "Escaped brace {} with expression")
assertEq(`Backslash \ that escapes the space is not a part of the string...`, "Backslash  that escapes the space is not a part of the string...")
assertEq(`Escaped backslash \\`, "Escaped backslash \\")
assertEq(`Escaped backtick: \``, "Escaped backtick: `")

assertEq(`Hello {`from inside {"a nested string"}`}`, "Hello from inside a nested string")

assertEq(`1 {`2 {`3 {4}`}`}`, "1 2 3 4")

local health = 50
assert(`You have {health}% health` == "You have 50% health")

local function shadowsString(string)
	return `Value is {string}`
end

assertEq(shadowsString("hello"), "Value is hello")
assertEq(shadowsString(1), "Value is 1")

assertEq(`\u{0041}\t`, "A\t")

return "OK"
