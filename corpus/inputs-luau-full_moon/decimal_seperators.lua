local num1 = 1_048_576
local num2 = 0xFFFF_FFFF
local num3 = 0b_0101_0101
local num4 = 1_523_423.132_452_312
local num5 = 1e512_412
local num6 = 1e-512_412