local x = 1 // 2
