x(`simple`)
x(`hello {"world"}`)
x(`1{2}3{"4"}5`)
x(`1{`2{"3"}`}`)
