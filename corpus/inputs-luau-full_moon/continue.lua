-- Very important loop here
while true do
	continue
end

continue()
local continue = 4
