type Foo = {
	read bar: number,
	write baz: number,
}