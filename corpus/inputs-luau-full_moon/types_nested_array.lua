type Foo = { { string } }
type Foo = { {Name: string, Foo: number} }