for i, v: string in pairs() do

end

for i: number = 1, 10, 2 do
    
end