--!strict
local _fn3
type Identity<T> = T
type Array<T> = { [number]: T }
type Map<K, V> = { [K]: V }
type Function<T> = (...any) -> ...T
type Object = { x: number, y: number }
type Typeof = typeof(2 + 2 + _fn3())
type FetchResult = "alice" | "mallet"
type Element = { ["$$typeof"]: number }

type Callback1 = (string) -> number
type Callback2 = (string, string) -> number
type Callback3 = (string, string) -> (string, nil)
type Callback3a = (string, "error" | "success") -> (string, "weasel" | "basilisk")
type Callback4 = (string) -> (string) -> ()
type NetworkError = { message: string? } & { handled: true }

type Foo = {
	bar: number,
	baz: number,
}

local foo0: number = 3
local _foo1: number?
local _foo2: Array<string>
local _foo3: Map<number, "allow" | "deny">
local _bar0 = foo0 :: number
local _foo4: string, _bar1: string

local _union: number | string
local _multiUnion: number | string | nil
local _leadingUnion: | number | string | nil

local _intersection: number & string
local _multiIntersection: number & string & nil
local _leadingIntersection: & number & string & nil

function _fn0(param: string): string
	return param
end

function _fn2(a: string, b: string, ...) end

local _fn3 = function(): number | nil
	return 3
end

local function _concat<T, S>(source: Array<T>, ...: Array<S> | S): Array<T> & Array<S>
    return (source :: any) :: Array<S> & Array<T>
end