-- Taken from https://github.com/JohnnyMorganz/StyLua/blob/main/tests/inputs/multiline-expressions-3.lua
do
	do
		do
			do
				local text = "Players: " .. #Server_Container.ARandomVariableWhichIsVeryLongSoThatThisGetsOverTheColumnLimit.Players_F:GetChildren() - 1 .. "/20"
				local ratio = (minAxis - minAxisSize) / delta * (self.props.maxScaleRatio - self.props.minScaleRatio) + self.props.minScaleRatio
				local ratio2 = (minAxis - minAxisSize) / delta * (self.props.maxScaleRatio - self.props.minScaleRatio) * self.props.aRandomVariableWhichIsVeryLong + self.props.minScaleRatio
			end
		end
	end
end
