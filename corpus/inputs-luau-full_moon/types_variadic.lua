--!strict
type Foo = (...number) -> ()
type Baz = (string, ...Foo) -> ...Foo
type Bar = (...number) -> (string, ...number) -> ...any
type Boom = (..."hit" | "miss") -> (string, ...("critical" | "weak" | "normal")) -> ...("dead" | "alive")

function _bar(...: number): ...number | string end

local f: Boom = function(...)
	return function(x, ...)
		return "alive", "dead"
	end
end

f("hit")

local Boo = {}
function Boo:f(name: string, ...: number): () -> (string, ...Foo) -> ()
	return function()
		return function(_x: string, ...: Foo) end
	end
end

type Fn<U...> = any
type T = Fn<...'ok'>