type Config = {
    option1: string??, -- you probably need it once in a while
    option2: string???, -- once a year
    option3: string?????? -- once in your life!
}