local x = 1
local y = 2

x += 5
x -= 5
x *= 5
x /= 5
x //= 5
x %= 5
x ^= 5

x += y
x -= y
x *= y
x /= y
x //= y
x %= y
x ^= y

local str1 = "Hello, "
local str2 = "world!"

str1 ..= "world!"
str1 ..= str2