type MyCallbackType = (cost: number, name: string) -> string

local cb: (amount: number) -> number
local function foo(cb: (name: string) -> ())
end

local function bar(x: (number)?): (baz: string) -> string
end

local function bar(x: (number)?): (baz: string) -> ((names: Array<string>) -> ...any)
end