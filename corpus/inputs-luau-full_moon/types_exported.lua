type Foo = { bar: any }
export type Baz = { foo: any }
