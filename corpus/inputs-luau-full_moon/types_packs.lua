--!strict
function _foo<T...>(param: () -> T...)
end

type Foo<T...> = () -> T...

function _bar<T...>(...: T...)
end

type A<Z, P...> = {}
type C<S...> = A<number, S...> -- with a generic type pack
type B = A<number, ...string> -- with a variadic type pack
type D = A<number, ()> -- with an empty type pack

type Function<Args..., Return...> = (Args...) -> Return...

type AnyFunction = Function<...any, ...any>

local _g: Function<(number, string, ...string), (string, number)>? = nil