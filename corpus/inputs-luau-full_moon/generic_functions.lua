--!strict
function _foo<x, y>()
end

local function _bar<x>()
end

export type Foo0 = {
	bar: <T>(
		a: T,
		b: nil | number | boolean
	) -> T,
}
local _baz
export type Foo1 = {
	bar: <T>(
		a: T,
		b: nil | number | boolean
	) -> ((arg0: T) -> ())?,
}

_baz = function<T>(a: T, b: number | boolean | nil): nil | T
    return nil
end