-- https://github.com/Kampfkarren/full-moon/issues/286

-- should be parsed as a function returning a variable amount of values of type "string & T"
type FnA = () -> ...string & T

-- should be parsed as an intersection of a function returning U... values, and a value of type T
type FnB<U...> = () -> U... & T
