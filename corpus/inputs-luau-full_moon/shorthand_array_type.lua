type Array<T> = { T }
type Array<T> = { [number]: T }