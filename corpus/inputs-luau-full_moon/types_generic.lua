type Array<T> = { T }
local x: Array<Array<number>>
