type function f(...)
    -- implementation of the type function
end

export type function f(...)
    -- implementation of the type function
end