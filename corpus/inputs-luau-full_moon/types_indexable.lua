local x: module.Foo = nil
local x: module.Array<string> = { "bar" }
local x: module.Foo | string = "bar"
local x: module.Foo? = nil
local x: module.Foo<...string> = nil