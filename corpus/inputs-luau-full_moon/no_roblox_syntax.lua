-- Taken from https://raw.githubusercontent.com/Kampfkarren/Roblox/master/Modules/LineOfSight.lua
local ReplicatedStorage = game:GetService("ReplicatedStorage")
local RunService = game:GetService("RunService")

local Raycast = require(ReplicatedStorage.Modules.Raycast)

local DEBUG = true
DEBUG = DEBUG and RunService:IsStudio()

local debug

if DEBUG then
	function debug(...)
		print("[LineOfSight]", ...)
	end
else
	function debug()
	end
end

return function(origin, character, range, ignoreIf, blacklist)
	if typeof(origin) == "Instance" then
		if origin.Position:FuzzyEq(character.PrimaryPart.Position) then
			debug("ORIGIN WAS CHARACTER")
			return origin, origin.Position
		end

		origin = origin.Position
	end

	blacklist = blacklist or {}

	local hit, point do
		while true do
			hit, point = Raycast(Ray.new(origin, (origin - character.PrimaryPart.Position).Unit * -range), blacklist)

			if hit and hit:IsDescendantOf(character) then
				break
			elseif hit and ignoreIf(hit) then
				debug("IGNORING OFF IF", hit:GetFullName())
				blacklist[#blacklist + 1] = hit
			else
				break
			end
		end
	end

	debug("LOS RESULT", hit and hit:GetFullName())

	return hit and hit:IsDescendantOf(character), point
end
