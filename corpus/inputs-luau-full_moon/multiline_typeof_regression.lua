type TypeOf =
    typeof({})
