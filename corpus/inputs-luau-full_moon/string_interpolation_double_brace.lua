local _ = `{ {}}`
local _ = `{--[[]]{}}`
local _ = `\{{true}`
local _ = `{ {true}}`
-- TODO: https://github.com/Roblox/luau/issues/1019
-- local _ = `{ {hello}}`
local _ = `\{{hello}}`