type Foo = {
	bar: number;
	baz: number;
}