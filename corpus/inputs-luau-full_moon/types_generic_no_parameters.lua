type Bar = Foo<>
type Baz = module.Foo<>