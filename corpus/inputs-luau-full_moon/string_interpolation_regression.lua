error(
	`a {b} c`
)
