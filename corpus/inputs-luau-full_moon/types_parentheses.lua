--!strict
type GField<_crack, __fuzzing> = {}
local TypeInfo = {}
function TypeInfo.new(
	getFieldDefFn: (() -> GField<any, any>?)?
)
end

export type Thunk<T> = (() -> T) | T

export type PromiseLike<T> = {
    andThen: (
                ((T) -> T)? | (PromiseLike<T>)?, -- resolve
                ((any) -> () | PromiseLike<T>)? -- reject
        ) -> PromiseLike<T>
}

local GError = {}
type GError = typeof(GError)
type Error = { message: string?, stacktrace: string? }
function GError.new(
	originalError: (Error & { extensions: any? }) -- new syntax
): GError?
  return nil
end

type IProperties = {
	RemoveOnCollision: (string | (IProperties, BasePart, Vector3, Vector3, Enum.Material, number) -> boolean)?,
}