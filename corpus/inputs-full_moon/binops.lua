a = foo and bar
b = foo and bar or baz
c = 1 + 2 * 3 - 4 ^ 2
d = a + i < b / 2 + 1
e = 5 + x ^ 2 * 8
f = a < y and y <= z
g = -x ^ 2
h = x ^ y ^ z