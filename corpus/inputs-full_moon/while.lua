while condition do
	call()
	break
end