if x then
	foo()
elseif y then
	bar()
end