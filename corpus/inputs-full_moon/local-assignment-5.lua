local x = 1
-- Then a comment
local y = 1
