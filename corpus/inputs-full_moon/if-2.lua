if x then
	foo()
else
	bar()
end