x.y("a")
x:y("b")