for index, value in next, list do
	call(index, value)
end