call('\\')
call("\\")
call({ ["\\"] = "" })