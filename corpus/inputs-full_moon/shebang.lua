#!/usr/bin/env lua

print("Hello world");
