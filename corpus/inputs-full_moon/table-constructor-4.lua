local x = {
	[call()] = 1,
}