call()
call(1)
call(1, 2)