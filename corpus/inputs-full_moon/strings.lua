call("double")
call('single')
call("foo\nbar")
call("")