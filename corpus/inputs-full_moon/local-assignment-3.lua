local a, b = 1, 2
local c, d = 3, 4
local e, f = 5, 6