do
	return 1
end

do
	break
end

return call()
