local function foo(a, b) end
local function bar(...) end
local function baz(a, b, ...) end