call(function()
	foo("bar")
end)