do
	call()
end