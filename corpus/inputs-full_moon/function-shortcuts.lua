call { x = 1 }
call "hello"