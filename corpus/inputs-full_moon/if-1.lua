if x then
	call()
end