-- Crazy assignment code from AmaranthineCodices
a, b, c.d.e[f][g][1], h:i().j[k]:l()[m] = true, false, 1, 4