local x = [[Full Moon
is a
lossless
Lua parser]]