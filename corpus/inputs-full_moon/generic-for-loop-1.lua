for index, value in pairs(list) do
	call(index, value)
end