	-- Indented single line
	--[[
		Indented multi line
	]]