--[=[

	This description starts one line down,

	And has a line in the middle, followed by trailing lines.

	```lua
	function test()
		print("indentation")

		do
			print("more indented")
		end
	end
	```


	@class indentation


]=]