function x()
	call()
end