repeat
	call()
until condition