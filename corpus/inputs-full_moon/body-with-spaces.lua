do
    
end