gui.Label.Text = "LOADING DATA" .. ("."):rep(dotCount)
