local num = 1e5
local num2 = 1e-5
local num3 = 1e+5