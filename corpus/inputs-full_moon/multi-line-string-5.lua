local emoji = [[🧓🏽]]
local more_code = here
