local foo = bar -- trailing comment

-- leading comment
local bar = baz
local baz = foo

do
	local foo = bar
	-- comment
	local bar = baz
end