--[[
	such comments
	much lines
	wow
]]