-- goto as an identifier is permitted in lua 5.1
self.goto("foo")