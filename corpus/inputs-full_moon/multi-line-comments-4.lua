--[=====[
	lua be like
]====]
	still going
]=====]