--[[👨🏾‍💻]]
local more_code = here
