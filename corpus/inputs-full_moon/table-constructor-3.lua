local x = {
	a = 1,
	b = 2,
	c = 3
}

local y = {
	a = 1,
	b = 2,
	c = 3,
}