local negativeLiteral = -3
local negativeVariable = -x
local notLiteral = not true
local notVariable = not x
local length = #x