local x = 1
return x;