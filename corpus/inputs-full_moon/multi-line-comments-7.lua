--[=[ μέλλον ]=]

-- some text here
