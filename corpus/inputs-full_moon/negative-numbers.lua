local foo = x-1
local foo = x -1
print(1+-3)
local foo = -x+1