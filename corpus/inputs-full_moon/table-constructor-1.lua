local x = {
}