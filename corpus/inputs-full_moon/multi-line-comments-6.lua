local function x(...--[[comment here]])
end