if x then
	foo()
elseif y then
	bar()
else
	baz()
end