local function x()
	call(1)
end
