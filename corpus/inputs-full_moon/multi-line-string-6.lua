local foo = "bar\
baz"
