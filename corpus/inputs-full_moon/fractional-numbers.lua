local num = 0.5
local num2 = 0.5e5
local num3 = .5
local num4 = .5e5
local num5 = 1.
