print("foo\
	bar")
