local blacklist = {
	["Audio file failed to load (18)."] = true;
	["HTTP 0 (HTTP 429 (HTTP/1.1 429 ProvisionedThroughputExceeded))"] = true;
	["LoadCharacter can only be called when Player is in the world"] = true;
}