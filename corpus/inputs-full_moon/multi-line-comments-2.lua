--[=[
	never have i used these weird equals signs comments
	but im sure someone does
]=]