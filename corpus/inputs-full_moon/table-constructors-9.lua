-- comments separated by tab chars, should be parsed as trailing trivia of the tokens they are next to
-- stylua: ignore
local too = {
	x,		-- string
	y,		-- string
}
