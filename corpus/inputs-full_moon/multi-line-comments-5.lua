--[[
local emotes = {
	[":thinking:"] = "http://www.roblox.com/asset/?id=643340245",
	[":bug:"] = "http://www.roblox.com/asset/?id=860037275"
}
]]