for index = 1, 10 do call(index) end
for _ = start, final do end
for _ = 1, 10, 2 do end