return {
	["Noob Attack: Periastron"] = "Noob Attack - Periastron";
	["Noob Attack꞉ Periastron"] = "Noob Attack - Periastron";
}
