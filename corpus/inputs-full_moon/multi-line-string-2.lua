local x = [=[This is
several equal
signs]=]