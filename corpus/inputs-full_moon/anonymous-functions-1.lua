local x = function()
	call(1)
end
