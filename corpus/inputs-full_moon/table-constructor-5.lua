local x = {
	[call()] = 1,
	2,
}