#!/usr/bin/env python3
"""Merges seeded/<id>/confirm.json and the rows of seeded/KILL_MATRIX.md into seeded/<id>/meta.json."""
import glob, json, os, re
rows = {}
for line in open('/verif/seeded/KILL_MATRIX.md'):
    m = re.match(r'\| (C\d\d-\d) \| (C\d\d) \| ([^|]+) \| ([^|]*) \| (.*) \|$', line.rstrip('\n'))
    if m:
        rows.setdefault(m.group(1), []).append({"check": m.group(2), "result": m.group(3).strip(), "wall": m.group(4).strip(), "first_detail": m.group(5).strip()})
for d in sorted(glob.glob('/verif/seeded/C*-*/')):
    sid = os.path.basename(d.rstrip('/'))
    mp = d + 'meta.json'
    meta = json.load(open(mp))
    meta.setdefault("breaks_property", meta.get("property", sid[:3]))
    cp = d + 'confirm.json'
    if os.path.exists(cp):
        c = json.load(open(cp))
        c = {"how": "tools/confirm_seeds.sh in a scratch worktree of /repo under /tmp (removed afterwards): demonstration on the unchanged tree, `git apply patch.diff`, `cargo test --workspace --no-fail-fast --offline` (153 tests), demonstration with the patch", **c}
        meta["confirmed_by_checker_author"] = c
    if os.path.exists(d + 'patch.orig.diff'):
        meta["rebased"] = "patch.diff was re-based by hand onto later fix: commits at the same code site; patch.orig.diff is the sub-agent's original"
    if sid in rows:
        meta["checks_run_against_it"] = rows[sid]
    json.dump(meta, open(mp, 'w'), indent=1)
print("updated", len(glob.glob('/verif/seeded/C*-*/')))
