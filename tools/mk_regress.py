#!/usr/bin/env python3
"""Builds /verif/regress/<commit>-<property>.json from the violation replays harvested by tools/harvest_regress.sh
(/tmp/harvest/<commit>-<property>/*.json): the smallest three failing inputs of each reverted fix become plain
regression cases (tier R0 of the checks)."""
import glob, json, os, subprocess, sys

H = "/tmp/harvest"
OUT = "/verif/regress"
os.makedirs(OUT, exist_ok=True)
subjects = {}
for line in subprocess.run(["git", "-C", "/repo", "log", "--format=%h %s", "-60"], capture_output=True, text=True).stdout.splitlines():
    h, s = line.split(" ", 1)
    subjects[h] = s

for d in sorted(glob.glob(f"{H}/*-C[0-9][0-9]")):
    base = os.path.basename(d)
    commit, prop = base.rsplit("-", 1)
    reps = []
    for f in sorted(glob.glob(f"{d}/*.json")):
        try:
            v = json.load(open(f))
        except Exception:
            continue
        if v.get("property") != prop:
            continue
        case = v.get("case") or v.get("cli_case")
        if case is None:
            continue
        size = len(json.dumps(case))
        reps.append((size, case, v.get("detail", ""), v.get("origin", "")))
    if not reps:
        print(f"{base}: no replay harvested")
        continue
    reps.sort(key=lambda r: r[0])
    chosen = reps[:3]
    out = {
        "properties": [prop],
        "fixed_by": commit,
        "note": subjects.get(commit, ""),
        "failed_before_the_fix_with": [c[2].splitlines()[0][:300] if c[2] else "" for c in chosen],
        "cases": [c[1] for c in chosen],
    }
    json.dump(out, open(f"{OUT}/{commit}-{prop}.json", "w"), indent=1)
    print(f"{base}: {len(chosen)} cases (of {len(reps)})")
