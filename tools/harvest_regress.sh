#!/usr/bin/env bash
# usage: tools/harvest_regress.sh <commit> <property>...
# Reverts one "fix:" commit of /repo in a scratch worktree, runs the quick check of each named property there and keeps
# the replay files of the violations it reports under /tmp/harvest/<commit>-<property>/ (sensitivity of the checks to
# every repaired defect; the shrunk inputs become /verif/regress/*.json through tools/mk_regress.py).
set -u
c="$1"; shift
mkdir -p /tmp/revert /tmp/harvest
git -C /repo diff "$c" "$c~1" > "/tmp/revert/$c.diff"
for p in "$@"; do
  rm -rf "/tmp/harvest/$c-$p"
  PATCH_FILE="/tmp/revert/$c.diff" KEEP_REPLAYS="/tmp/harvest/$c-$p" /verif/tools/try_seed_scratch.sh "rev-$c" "$p" quick 2>&1 | tail -3
done
