#!/usr/bin/env bash
# usage: tools/confirm_seeds.sh <slot> <seed>...
# Confirms seeded defects in a scratch worktree of /repo (outside /repo and /verif): the demonstration passes on the
# unchanged tree, the patch applies, the baseline suite still passes with it (153 tests), the demonstration fails with it.
slot="$1"; shift
W="/tmp/confirm-slot-$slot"
if [ ! -d "$W" ]; then git -C /repo worktree add --detach "$W" HEAD >/dev/null 2>&1 || exit 2; fi
export CARGO_NET_OFFLINE=true
run_demo() { # $1 = seed dir
  local d="$1" rc
  if [ -f "$d/demo.rs" ]; then
    cp "$d/demo.rs" "$W/tests/demo.rs"
    local feats; feats=$(python3 -c "import json,re;m=json.load(open('$d/meta.json'));f=m.get('features','') or '';w=re.findall(r'\b(luau|lua52|lua53|lua54|luajit)\b',f);print(','.join(dict.fromkeys(w)))")
    if [ -n "$feats" ]; then (cd "$W" && cargo test --offline --test demo --features "$feats" >"$W/demo.log" 2>&1); rc=$?
    else (cd "$W" && cargo test --offline --test demo >"$W/demo.log" 2>&1); rc=$?; fi
    rm -f "$W/tests/demo.rs"
  else
    (cd "$W" && bash "$d/demo.sh" "$W" >"$W/demo.log" 2>&1); rc=$?
  fi
  return $rc
}
for seed in "$@"; do
  d="/verif/seeded/$seed"
  git -C "$W" checkout -q -- . ; git -C "$W" checkout -q --detach "$(git -C /repo rev-parse HEAD)" 2>/dev/null; rm -f "$W/tests/demo.rs"
  run_demo "$d"; clean_rc=$?
  applies=true
  if ! git -C "$W" apply "$d/patch.diff" 2>/dev/null; then applies=false; fi
  suite=0; patched_rc=-1
  if $applies; then
    suite=$( (cd "$W" && cargo test --workspace --no-fail-fast --offline 2>&1) | grep -E "^test result" | awk '{p+=$4; f+=$6} END{print p":"f}')
    run_demo "$d"; patched_rc=$?
  fi
  git -C "$W" checkout -q -- .
  python3 - "$d" "$clean_rc" "$applies" "$suite" "$patched_rc" <<'PY'
import json,sys,subprocess
d,clean_rc,applies,suite,patched_rc=sys.argv[1:6]
head=subprocess.run(['git','-C','/repo','rev-parse','--short','HEAD'],capture_output=True,text=True).stdout.strip()
passed,failed=(suite.split(':')+['0'])[:2] if ':' in suite else ('0','0')
ok = applies=='true' and clean_rc=='0' and passed=='153' and failed=='0' and patched_rc not in ('0','-1')
json.dump({"repo_head":head,"patch_applies":applies=='true',"demo_exit_without_patch":int(clean_rc),"baseline_passed_with_patch":int(passed or 0),"baseline_failed_with_patch":int(failed or 0),"demo_exit_with_patch":int(patched_rc),"confirmed":ok},open(d+'/confirm.json','w'),indent=1)
print(d.split('/')[-1], "confirmed" if ok else "NOT-CONFIRMED", "applies="+applies, "clean_demo="+clean_rc, "suite="+suite, "patched_demo="+patched_rc)
PY
done
git -C /repo worktree remove --force "$W" >/dev/null 2>&1
