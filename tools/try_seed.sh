#!/usr/bin/env bash
# usage: tools/try_seed.sh <seed dir name> <property> [tier]
# Applies /verif/seeded/<seed>/patch.diff to /repo, runs ./check <property> <tier>, and reverts /repo.
set -u
seed="$1"; prop="$2"; tier="${3:-quick}"
patch="/verif/seeded/$seed/patch.diff"
if ! git -C /repo diff --quiet; then echo "try_seed: /repo has uncommitted changes" >&2; exit 2; fi
if ! git -C /repo apply --check "$patch" 2>/dev/null; then
  echo "try_seed: $seed does not apply to the current /repo (rebase the patch)"; exit 3
else mode=""; fi
git -C /repo apply $mode "$patch" || exit 3
start=$(date +%s)
out=$(cd /verif && VERIF_SEED="${VERIF_SEED:-0}" ./check "$prop" "$tier" 2>&1)
code=$?
end=$(date +%s)
git -C /repo checkout -- . ; git -C /repo reset -q 2>/dev/null
echo "$out" | grep -E "^VIOLATION|^\[C|check:" | head -5
echo "$out" | grep -E "^  detail" | head -3
echo "try_seed: seed=$seed property=$prop tier=$tier exit=$code wall=$((end-start))s"
