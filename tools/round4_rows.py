#!/usr/bin/env python3
"""Appends the round-4 rows (seeds n = 8, 9) to seeded/KILL_MATRIX.md from the logs of tools/ingest_seeds.sh (first run,
/tmp/ingest-<property>.log) and of the re-runs after strengthening (/tmp/retest-<seed>-<check>.log), then calls
tools/update_meta.py. Every run used tools/try_seed_scratch.sh (scratch worktree, /repo untouched)."""
import glob, re, os, subprocess
rows = []
def parse(lines, seed, check, note):
    detail = ""; res = None; wall = ""
    for l in lines:
        m = re.search(r"detail: (.*)", l)
        if m and not detail: detail = m.group(1).strip().replace("|", "/")[:140]
        m = re.search(r"try_seed_scratch: seed=%s property=%s tier=quick exit=(\d+) wall=(\d+)s" % (seed, check), l)
        if m: res = "CAUGHT" if m.group(1) == "1" else ("missed" if m.group(1) == "0" else "infrastructure"); wall = m.group(2) + "s"
    if res: rows.append((seed, check, res + note, wall, detail if res == "CAUGHT" else ""))
for f in sorted(glob.glob("/tmp/ingest-C??.log")):
    prop = os.path.basename(f)[7:10]
    text = open(f).read().split("\n")
    # split per seed: lines between "<seed> confirmed" markers
    cur = None; buf = {}
    for l in text:
        m = re.match(r"(C\d\d-\d) (confirmed|NOT-CONFIRMED)", l)
        if m: cur = m.group(1); buf[cur] = []
        elif cur: buf[cur].append(l)
    for seed, lines in buf.items(): parse(lines, seed, prop, " (first run)")
for f in sorted(glob.glob("/tmp/retest-*.log")):
    m = re.match(r"retest-(C\d\d-\d)-(C\d\d)\.log", os.path.basename(f))
    parse(open(f).read().split("\n"), m.group(1), m.group(2), " (after strengthening)")
path = "/verif/seeded/KILL_MATRIX.md"
old = open(path).read()
marker = "\n## Round 4 (n = 8, 9)\n"
if marker in old: old = old[:old.index(marker)]
out = old.rstrip("\n") + "\n" + marker + "\nFirst runs and re-runs after strengthening, each in a scratch worktree (tools/try_seed_scratch.sh, VERIF_SEED=0, quick tier).\n\n| seed | check | result | wall | first detail |\n|---|---|---|---|---|\n"
for r in sorted(rows): out += "| %s | %s | %s | %s | %s |\n" % r
open(path, "w").write(out)
print(len(rows), "rows")
subprocess.run(["python3", "/verif/tools/update_meta.py"])
