#!/usr/bin/env bash
# usage: tools/try_seed_scratch.sh <seed dir name> <property> [tier]
# Like try_seed.sh, but leaves /repo alone: a scratch worktree of /repo receives the patch, a scratch copy of
# /verif (harness pointed at that worktree) runs the check, and everything is removed afterwards.
# Safe to use while other checks are running against /repo.
set -u
seed="$1"; prop="$2"; tier="${3:-quick}"
patch="${PATCH_FILE:-/verif/seeded/$seed/patch.diff}"
W="/tmp/ts-$seed-$prop"
git -C /repo worktree remove --force "$W/repo" 2>/dev/null
rm -rf "$W"; mkdir -p "$W"
cleanup() { git -C /repo worktree remove --force "$W/repo" 2>/dev/null; rm -rf "$W"; git -C /repo worktree prune; }
[ -n "${KEEP_SCRATCH:-}" ] || trap cleanup EXIT
git -C /repo worktree add -q --detach "$W/repo" HEAD || exit 2
if [ "$seed" != "none" ]; then
  git -C "$W/repo" apply "$patch" 2>/dev/null || git -C "$W/repo" apply --3way "$patch" >/dev/null 2>&1 || { echo "try_seed_scratch: $seed does not apply"; exit 3; }
  if git -C "$W/repo" diff --name-only --diff-filter=U | grep -q .; then echo "try_seed_scratch: $seed applies with conflicts"; exit 3; fi
fi
rsync -a --exclude .build --exclude out --exclude .git --exclude 'harness/target' --exclude 'harness/fuzz' /verif/ "$W/verif/"
sed -i "s#path = \"/repo\"#path = \"$W/repo\"#" "$W/verif/harness/Cargo.toml"
sed -i "s#(cd /repo #(cd $W/repo #" "$W/verif/check"
mkdir -p "$W/verif/.build"
# dependencies from the registry are reused; the path crates are rebuilt
cp -a /verif/.build/harness-target "$W/verif/.build/harness-target" 2>/dev/null
cp -a /verif/.build/stylua-target "$W/verif/.build/stylua-target" 2>/dev/null
start=$(date +%s)
out=$(cd "$W/verif" && VERIF_SEED="${VERIF_SEED:-0}" ./check "$prop" "$tier" 2>&1)
code=$?
end=$(date +%s)
echo "$out" | grep -E "^VIOLATION|^KNOWN|^\[C|check:|infrastructure" | head -6
echo "$out" | grep -E "^  detail" | head -3
if [ -n "${KEEP_REPLAYS:-}" ]; then mkdir -p "$KEEP_REPLAYS"; cp "$W"/verif/out/violations/* "$KEEP_REPLAYS"/ 2>/dev/null; fi
echo "try_seed_scratch: seed=$seed property=$prop tier=$tier exit=$code wall=$((end-start))s"
