#!/usr/bin/env bash
# usage: tools/kill_matrix.sh [tier] — runs every seeded defect against the check of its own property
# (plus the extra checks listed in EXTRA) and writes seeded/KILL_MATRIX.md. /repo must be clean and not in use.
tier="${1:-quick}"
cd "$(dirname "$0")/.."
declare -A EXTRA=( [C17-2]="C15" [C20-2]="C15" [C01-2]="C03" [C03-1]="C01" [C06-2]="C10" [C10-1]="C06" [C02-2]="C01" [C05-1]="C02" [C05-2]="C02" [C02-1]="C05" )
out=seeded/KILL_MATRIX.md
{
echo "# Kill matrix of the seeded defects ($tier tier, VERIF_SEED=${VERIF_SEED:-0})"
echo
echo "Produced by tools/kill_matrix.sh: each patch is applied to /repo, the check is run, /repo is restored."
echo
echo "| seed | check | result | wall | first detail |"
echo "|---|---|---|---|---|"
} > "$out"
for d in seeded/C*-*/; do
  seed=$(basename "$d"); prop=${seed%-*}
  for p in $prop ${EXTRA[$seed]:-}; do
    res=$(tools/try_seed.sh "$seed" "$p" "$tier" 2>&1)
    code=$(echo "$res" | sed -n 's/.*exit=\([0-9]*\).*/\1/p' | tail -1)
    wall=$(echo "$res" | sed -n 's/.*wall=\([0-9]*s\).*/\1/p' | tail -1)
    detail=$(echo "$res" | grep -m1 "detail:" | sed 's/^ *detail: //' | cut -c1-140 | tr '|' '/')
    case "$code" in 1) r="CAUGHT";; 0) r="missed";; 3) r="patch does not apply";; *) r="infrastructure ($code)";; esac
    echo "| $seed | $p | $r | $wall | $detail |" >> "$out"
    echo "$seed $p $r $wall"
  done
done
