#!/usr/bin/env bash
# usage: tools/kill_matrix.sh [tier] [jobs] — runs every seeded defect against the check of its own property
# (plus the extra checks listed in EXTRA) in scratch worktrees (tools/try_seed_scratch.sh: /repo is not touched),
# `jobs` at a time, and writes seeded/KILL_MATRIX.md.
tier="${1:-quick}"; jobs="${2:-3}"
cd "$(dirname "$0")/.."
declare -A EXTRA=( [C17-2]="C15" [C20-2]="C15" [C01-2]="C03" [C03-1]="C01" [C06-2]="C10" [C10-1]="C06" [C02-2]="C01" [C05-1]="C02" [C05-2]="C02" [C02-1]="C05" [C01-3]="C09 C12" [C17-4]="C20" [C20-4]="C17" [C09-3]="C08" [C12-4]="C08" [C10-7]="C08" [C08-6]="C12" [C09-7]="C17" [C19-6]="C14" [C20-7]="C15" )
tmp=$(mktemp -d /tmp/km.XXXXXX)
list=()
for d in seeded/C*-*/; do
  seed=$(basename "$d"); prop=${seed%-*}
  for p in $prop ${EXTRA[$seed]:-}; do list+=("$seed $p"); done
done
run_one() {
  seed="$1"; p="$2"
  res=$(tools/try_seed_scratch.sh "$seed" "$p" "$tier" 2>&1)
  code=$(echo "$res" | sed -n 's/.*exit=\([0-9]*\).*/\1/p' | tail -1)
  wall=$(echo "$res" | sed -n 's/.*wall=\([0-9]*s\).*/\1/p' | tail -1)
  detail=$(echo "$res" | grep -m1 "detail:" | sed 's/^ *detail: //' | cut -c1-140 | tr '|' '/')
  case "$code" in 1) r="CAUGHT";; 0) r="missed";; 3) r="patch does not apply";; *) r="infrastructure ($code)";; esac
  echo "| $seed | $p | $r | $wall | $detail |" > "$tmp/$seed-$p.row"
  echo "$seed $p $r $wall"
}
export -f run_one; export tier tmp
printf '%s\n' "${list[@]}" | xargs -P "$jobs" -L 1 bash -c 'run_one $0 $1'
out=seeded/KILL_MATRIX.md
{
echo "# Kill matrix of the seeded defects ($tier tier, VERIF_SEED=${VERIF_SEED:-0})"
echo
echo "Produced by tools/kill_matrix.sh: each patch is applied to a scratch worktree of /repo, a scratch copy of /verif is"
echo "pointed at it, the check is run there. Seeds n = 1, 2 are the first round, n = 3, 4 the second, n = 6, 7 the third;"
echo "C16-5 replaces C16-1, which stopped being a defect when D17 was repaired."
echo
echo "| seed | check | result | wall | first detail |"
echo "|---|---|---|---|---|"
for x in "${list[@]}"; do set -- $x; cat "$tmp/$1-$2.row" 2>/dev/null || echo "| $1 | $2 | not run | | |"; done
} > "$out"
rm -rf "$tmp"
