#!/usr/bin/env bash
# usage: tools/verify_regress_old.sh <fix commit> <property>
# Builds the harness against the tree just before a "fix:" commit (scratch worktree) and runs only the regression tier
# of the property there: the saved inputs of that fix must fail (exit 1) on the old tree.
set -u
c="$1"; prop="$2"
W="/tmp/vr-$c-$prop"
git -C /repo worktree remove --force "$W/repo" 2>/dev/null; rm -rf "$W"; mkdir -p "$W"
cleanup() { git -C /repo worktree remove --force "$W/repo" 2>/dev/null; rm -rf "$W"; git -C /repo worktree prune; }
trap cleanup EXIT
git -C /repo worktree add -q --detach "$W/repo" "$c~1" || exit 2
rsync -a --exclude .build --exclude out --exclude .git --exclude 'harness/target' --exclude 'harness/fuzz' /verif/ "$W/verif/"
# only the files of this fix
find "$W/verif/regress" -name '*.json' ! -name "$c-*" -delete
sed -i "s#path = \"/repo\"#path = \"$W/repo\"#" "$W/verif/harness/Cargo.toml"
sed -i "s#(cd /repo #(cd $W/repo #" "$W/verif/check"
mkdir -p "$W/verif/.build"
cp -a /verif/.build/harness-target "$W/verif/.build/harness-target" 2>/dev/null
cp -a /verif/.build/stylua-target "$W/verif/.build/stylua-target" 2>/dev/null
out=$(cd "$W/verif" && VERIF_ONLY=R0 ./check "$prop" quick 2>&1); code=$?
echo "$out" | grep -E "^VIOLATION|detail|R0 only|check:" | head -8
echo "verify_regress_old: fix=$c property=$prop exit=$code (1 = the saved inputs fail before the fix)"
