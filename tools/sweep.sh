#!/usr/bin/env bash
# usage: tools/sweep.sh <tier> <seed>...   runs every check once per seed; prints one line per run
tier="$1"; shift
cd "$(dirname "$0")/.."
for seed in "$@"; do
  for p in C01 C02 C03 C04 C05 C06 C07 C08 C09 C10 C11 C12 C13 C14 C15 C16 C17 C18 C19 C20; do
    start=$(date +%s)
    out=$(VERIF_SEED=$seed ./check $p $tier 2>&1); code=$?
    end=$(date +%s)
    echo "seed=$seed $p exit=$code wall=$((end-start))s $(echo "$out" | grep -c '^VIOLATION') violations"
    if [ $code -ne 0 ]; then echo "$out" | grep -E "VIOLATION|detail|infrastructure|HARNESS" | head -6; fi
  done
done
