#!/usr/bin/env bash
# usage: tools/ingest_seeds.sh <worktree of the seed-writing agent> <property> <n>...
# Copies <worktree>/_seed/<property>-<n> into /verif/seeded, removes the worktree, confirms each seed in a scratch
# worktree and runs the quick check of its property against it (scratch as well).
set -u
wt="$1"; prop="$2"; shift 2
cd /verif
for n in "$@"; do cp -r "$wt/_seed/$prop-$n" seeded/ 2>/dev/null || echo "missing $prop-$n"; done
git -C /repo worktree remove --force "$wt" 2>/dev/null
slot=$(( (RANDOM % 900) + 100 ))
for n in "$@"; do
  [ -d "seeded/$prop-$n" ] || continue
  tools/confirm_seeds.sh "$slot" "$prop-$n" 2>&1 | tail -1
  tools/try_seed_scratch.sh "$prop-$n" "$prop" 2>&1 | tail -3 | cut -c1-260
done
