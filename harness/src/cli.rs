//! Engine E3: runs the real `stylua` binary (built from /repo with the hooks feature) in a fresh
//! sandbox directory per case, snapshots the tree before and after, and compares with models
//! written from the README.

use crate::lex::Syntax;
use serde::{Deserialize, Serialize};
use std::collections::BTreeMap;
use std::io::{Read, Write};
use std::path::{Path, PathBuf};
use std::process::{Command, Stdio};
use std::sync::atomic::{AtomicU64, Ordering};
use std::time::{Duration, Instant, SystemTime};
use stylua_lib as sl;

pub fn stylua_bin() -> PathBuf {
    std::env::var("VERIF_STYLUA_BIN").map(PathBuf::from).unwrap_or_else(|_| crate::corpus::verif_root().join(".build/stylua-target/release/stylua"))
}

#[derive(Clone, Debug, Default, Serialize, Deserialize, PartialEq, Eq, Hash)]
pub struct CliCase {
    /// files relative to the sandbox root (content as lossy text for readability + exact bytes)
    pub files: BTreeMap<String, Vec<u8>>,
    /// extra empty directories
    pub dirs: Vec<String>,
    /// working directory relative to the sandbox root ("" = root)
    pub cwd: String,
    pub argv: Vec<String>,
    /// environment; values may contain `$ROOT` which is replaced by the sandbox root
    pub env: BTreeMap<String, String>,
    pub stdin: Option<Vec<u8>>,
}

impl CliCase {
    pub fn hash64(&self) -> u64 {
        use std::hash::{Hash, Hasher};
        let mut h = std::collections::hash_map::DefaultHasher::new();
        self.hash(&mut h);
        h.finish()
    }
    /// readable form for replay files and samples
    pub fn to_json(&self) -> serde_json::Value {
        let files: BTreeMap<String, serde_json::Value> = self
            .files
            .iter()
            .map(|(k, v)| {
                let val = match std::str::from_utf8(v) {
                    Ok(s) => serde_json::json!({ "text": s }),
                    Err(_) => serde_json::json!({ "bytes": v }),
                };
                (k.clone(), val)
            })
            .collect();
        serde_json::json!({
            "files": files,
            "dirs": self.dirs,
            "cwd": self.cwd,
            "argv": self.argv,
            "env": self.env,
            "stdin": self.stdin.as_ref().map(|s| String::from_utf8_lossy(s).to_string()),
        })
    }
    pub fn from_json(v: &serde_json::Value) -> Option<CliCase> {
        let mut c = CliCase::default();
        for (k, f) in v.get("files")?.as_object()? {
            let bytes = if let Some(t) = f.get("text").and_then(|t| t.as_str()) {
                t.as_bytes().to_vec()
            } else {
                f.get("bytes")?.as_array()?.iter().filter_map(|b| b.as_u64().map(|b| b as u8)).collect()
            };
            c.files.insert(k.clone(), bytes);
        }
        c.dirs = v.get("dirs").and_then(|d| d.as_array()).map(|a| a.iter().filter_map(|x| x.as_str().map(|s| s.to_string())).collect()).unwrap_or_default();
        c.cwd = v.get("cwd").and_then(|x| x.as_str()).unwrap_or("").to_string();
        c.argv = v.get("argv")?.as_array()?.iter().filter_map(|x| x.as_str().map(|s| s.to_string())).collect();
        if let Some(e) = v.get("env").and_then(|e| e.as_object()) {
            for (k, x) in e {
                c.env.insert(k.clone(), x.as_str().unwrap_or("").to_string());
            }
        }
        c.stdin = v.get("stdin").and_then(|s| s.as_str()).map(|s| s.as_bytes().to_vec());
        Some(c)
    }
}

/// a file entry whose content starts with this marker is created as a symbolic link to the path that follows
/// (relative to the link's directory); snapshots show links the same way
pub const SYMLINK_MARK: &[u8] = b"\0SYMLINK:";

#[derive(Clone, Debug, PartialEq, Eq)]
pub struct FileState {
    pub bytes: Vec<u8>,
    pub mtime_ns: u128,
    pub ino: u64,
}

pub type Snapshot = BTreeMap<String, FileState>;

#[derive(Debug)]
pub struct CliRun {
    pub code: Option<i32>,
    pub stdout: Vec<u8>,
    pub stderr: Vec<u8>,
    pub before: Snapshot,
    pub after: Snapshot,
    pub timed_out: bool,
}

static COUNTER: AtomicU64 = AtomicU64::new(0);

fn sandbox_base() -> PathBuf {
    let shm = Path::new("/dev/shm");
    let base = if shm.is_dir() { shm.to_path_buf() } else { std::env::temp_dir() };
    base.join(format!("vcheck-sb-{}", std::process::id()))
}

pub fn cleanup_sandboxes() {
    let _ = std::fs::remove_dir_all(sandbox_base());
}

fn snapshot(root: &Path) -> Snapshot {
    fn walk(root: &Path, dir: &Path, out: &mut Snapshot) {
        let Ok(rd) = std::fs::read_dir(dir) else { return };
        for e in rd.flatten() {
            let p = e.path();
            let Ok(md) = std::fs::symlink_metadata(&p) else { continue };
            let rel = p.strip_prefix(root).unwrap().to_string_lossy().to_string();
            if md.is_dir() {
                out.insert(format!("{rel}/"), FileState { bytes: Vec::new(), mtime_ns: 0, ino: 0 });
                walk(root, &p, out);
            } else {
                use std::os::unix::fs::MetadataExt;
                let bytes = if md.file_type().is_symlink() {
                    let mut b = SYMLINK_MARK.to_vec();
                    b.extend_from_slice(std::fs::read_link(&p).map(|t| t.to_string_lossy().to_string()).unwrap_or_default().as_bytes());
                    b
                } else {
                    std::fs::read(&p).unwrap_or_default()
                };
                let mtime_ns = md.modified().ok().and_then(|t| t.duration_since(SystemTime::UNIX_EPOCH).ok()).map_or(0, |d| d.as_nanos());
                out.insert(rel, FileState { bytes, mtime_ns, ino: md.ino() });
            }
        }
    }
    let mut out = Snapshot::new();
    walk(root, root, &mut out);
    out
}

/// Runs one case in a fresh sandbox directory (removed afterwards)
pub fn run_cli(case: &CliCase) -> Result<CliRun, String> {
    let n = COUNTER.fetch_add(1, Ordering::Relaxed);
    let root = sandbox_base().join(format!("{n}"));
    let _ = std::fs::remove_dir_all(&root);
    std::fs::create_dir_all(&root).map_err(|e| format!("create sandbox: {e}"))?;
    let result = (|| -> Result<CliRun, String> {
        for d in &case.dirs {
            std::fs::create_dir_all(root.join(d)).map_err(|e| format!("mkdir {d}: {e}"))?;
        }
        let old = SystemTime::UNIX_EPOCH + Duration::from_secs(1_500_000_000);
        for (name, bytes) in &case.files {
            let p = root.join(name);
            if let Some(parent) = p.parent() {
                std::fs::create_dir_all(parent).map_err(|e| format!("mkdir: {e}"))?;
            }
            if let Some(target) = bytes.strip_prefix(SYMLINK_MARK) {
                std::os::unix::fs::symlink(String::from_utf8_lossy(target).to_string(), &p).map_err(|e| format!("symlink {name}: {e}"))?;
                continue;
            }
            let mut f = std::fs::File::create(&p).map_err(|e| format!("create {name}: {e}"))?;
            f.write_all(bytes).map_err(|e| format!("write {name}: {e}"))?;
            f.set_modified(old).map_err(|e| format!("set mtime: {e}"))?;
        }
        let cwd = root.join(&case.cwd);
        std::fs::create_dir_all(&cwd).map_err(|e| format!("mkdir cwd: {e}"))?;
        let before = snapshot(&root);
        let root_s = root.to_string_lossy().to_string();
        let mut cmd = Command::new(stylua_bin());
        cmd.current_dir(&cwd).env_clear();
        cmd.env("HOME", root.join("home-unused")).env("NO_COLOR", "1");
        for (k, v) in &case.env {
            cmd.env(k, v.replace("$ROOT", &root_s));
        }
        for a in &case.argv {
            cmd.arg(a.replace("$ROOT", &root_s));
        }
        cmd.stdin(if case.stdin.is_some() { Stdio::piped() } else { Stdio::null() });
        cmd.stdout(Stdio::piped()).stderr(Stdio::piped());
        let mut child = cmd.spawn().map_err(|e| format!("spawn {}: {e}", stylua_bin().display()))?;
        let mut stdin_thread = None;
        if let Some(data) = case.stdin.clone() {
            if let Some(mut si) = child.stdin.take() {
                stdin_thread = Some(std::thread::spawn(move || {
                    let _ = si.write_all(&data);
                }));
            }
        }
        let mut so = child.stdout.take().unwrap();
        let mut se = child.stderr.take().unwrap();
        let t_out = std::thread::spawn(move || {
            let mut v = Vec::new();
            let _ = so.read_to_end(&mut v);
            v
        });
        let t_err = std::thread::spawn(move || {
            let mut v = Vec::new();
            let _ = se.read_to_end(&mut v);
            v
        });
        let start = Instant::now();
        let mut timed_out = false;
        let status = loop {
            match child.try_wait() {
                Ok(Some(s)) => break Some(s),
                Ok(None) => {
                    if start.elapsed() > Duration::from_secs(60) {
                        let _ = child.kill();
                        let _ = child.wait();
                        timed_out = true;
                        break None;
                    }
                    std::thread::sleep(Duration::from_millis(2));
                }
                Err(e) => return Err(format!("wait: {e}")),
            }
        };
        if let Some(t) = stdin_thread {
            let _ = t.join();
        }
        let stdout = t_out.join().unwrap_or_default();
        let stderr = t_err.join().unwrap_or_default();
        let after = snapshot(&root);
        Ok(CliRun { code: status.and_then(|s| s.code()), stdout, stderr, before, after, timed_out })
    })();
    let _ = std::fs::remove_dir_all(&root);
    result
}

// ------------------------------------------------------------------------------------------
// option sets (a value is None when the option is not given by that carrier)

#[derive(Clone, Copy, Debug, Default, PartialEq, Eq, Hash, Serialize, Deserialize)]
pub struct OptCfg {
    pub syntax: Option<Syntax>,
    pub column_width: Option<usize>,
    pub line_endings: Option<crate::cfg::Endings>,
    pub indent_type: Option<crate::cfg::Indent>,
    pub indent_width: Option<usize>,
    pub quote_style: Option<crate::cfg::Quotes>,
    pub call_parentheses: Option<crate::cfg::CallParens>,
    pub collapse: Option<crate::cfg::Collapse>,
    pub sort_requires: Option<bool>,
    pub space_after: Option<crate::cfg::SpaceAfter>,
}

impl OptCfg {
    pub fn is_empty(&self) -> bool {
        *self == OptCfg::default()
    }
    /// values of `self` on top of `base`
    pub fn apply(&self, mut base: sl::Config) -> sl::Config {
        use crate::cfg::*;
        if let Some(s) = self.syntax {
            base.syntax = Cfg::default_for(s).to_stylua().syntax;
        }
        if let Some(w) = self.column_width {
            base.column_width = w;
        }
        let d = Cfg::default_for(Syntax::Lua51);
        if let Some(v) = self.line_endings {
            base.line_endings = Cfg { line_endings: v, ..d }.to_stylua().line_endings;
        }
        if let Some(v) = self.indent_type {
            base.indent_type = Cfg { indent_type: v, ..d }.to_stylua().indent_type;
        }
        if let Some(v) = self.indent_width {
            base.indent_width = v;
        }
        if let Some(v) = self.quote_style {
            base.quote_style = Cfg { quote_style: v, ..d }.to_stylua().quote_style;
        }
        if let Some(v) = self.call_parentheses {
            base.call_parentheses = Cfg { call_parentheses: v, ..d }.to_stylua().call_parentheses;
        }
        if let Some(v) = self.collapse {
            base.collapse_simple_statement = Cfg { collapse: v, ..d }.to_stylua().collapse_simple_statement;
        }
        if let Some(v) = self.sort_requires {
            base.sort_requires = sl::SortRequiresConfig { enabled: v };
        }
        if let Some(v) = self.space_after {
            base.space_after_function_names = Cfg { space_after: v, ..d }.to_stylua().space_after_function_names;
        }
        base
    }
    pub fn to_toml(&self) -> String {
        let mut s = String::new();
        if let Some(v) = self.syntax {
            s.push_str(&format!("syntax = \"{}\"\n", v.name()));
        }
        if let Some(v) = self.column_width {
            s.push_str(&format!("column_width = {v}\n"));
        }
        if let Some(v) = self.line_endings {
            s.push_str(&format!("line_endings = \"{v:?}\"\n"));
        }
        if let Some(v) = self.indent_type {
            s.push_str(&format!("indent_type = \"{v:?}\"\n"));
        }
        if let Some(v) = self.indent_width {
            s.push_str(&format!("indent_width = {v}\n"));
        }
        if let Some(v) = self.quote_style {
            s.push_str(&format!("quote_style = \"{v:?}\"\n"));
        }
        if let Some(v) = self.call_parentheses {
            s.push_str(&format!("call_parentheses = \"{v:?}\"\n"));
        }
        if let Some(v) = self.collapse {
            s.push_str(&format!("collapse_simple_statement = \"{v:?}\"\n"));
        }
        if let Some(v) = self.space_after {
            s.push_str(&format!("space_after_function_names = \"{v:?}\"\n"));
        }
        if let Some(v) = self.sort_requires {
            s.push_str(&format!("\n[sort_requires]\nenabled = {v}\n"));
        }
        s
    }
    /// command line flags; `sort_requires: Some(false)` cannot be expressed and is skipped
    pub fn to_flags(&self) -> Vec<String> {
        let mut v = Vec::new();
        let mut push = |k: &str, val: String| {
            v.push(k.to_string());
            v.push(val);
        };
        if let Some(x) = self.syntax {
            push("--syntax", x.name().to_string());
        }
        if let Some(x) = self.column_width {
            push("--column-width", x.to_string());
        }
        if let Some(x) = self.line_endings {
            push("--line-endings", format!("{x:?}"));
        }
        if let Some(x) = self.indent_type {
            push("--indent-type", format!("{x:?}"));
        }
        if let Some(x) = self.indent_width {
            push("--indent-width", x.to_string());
        }
        if let Some(x) = self.quote_style {
            push("--quote-style", format!("{x:?}"));
        }
        if let Some(x) = self.call_parentheses {
            push("--call-parentheses", format!("{x:?}"));
        }
        if let Some(x) = self.collapse {
            push("--collapse-simple-statement", format!("{x:?}"));
        }
        if let Some(x) = self.space_after {
            push("--space-after-function-names", format!("{x:?}"));
        }
        if self.sort_requires == Some(true) {
            v.push("--sort-requires".to_string());
        }
        v
    }
}

/// A small set of option values drawn from a tape (few options set, so that carriers are distinguishable)
pub fn gen_optcfg(t: &mut crate::tape::Tape, allow_syntax: bool) -> OptCfg {
    use crate::cfg::*;
    let mut o = OptCfg::default();
    if t.chance(90) {
        o.column_width = Some([40, 80, 100, 60, 20, 200][t.pick(6)]);
    }
    if t.chance(70) {
        o.indent_type = Some(if t.chance(128) { Indent::Spaces } else { Indent::Tabs });
    }
    if t.chance(60) {
        o.indent_width = Some([2, 4, 8, 3][t.pick(4)]);
    }
    if t.chance(70) {
        o.quote_style = Some(QUOTES[t.pick(4)]);
    }
    if t.chance(60) {
        o.call_parentheses = Some(CALLPARENS[t.pick(5)]);
    }
    if t.chance(50) {
        o.collapse = Some(COLLAPSE[t.pick(4)]);
    }
    if t.chance(50) {
        o.space_after = Some(SPACEAFTER[t.pick(4)]);
    }
    if t.chance(40) {
        o.line_endings = Some(if t.chance(128) { Endings::Windows } else { Endings::Unix });
    }
    if t.chance(40) {
        o.sort_requires = Some(true);
    }
    if allow_syntax && t.chance(40) {
        o.syntax = Some([Syntax::Lua51, Syntax::Luau, Syntax::Lua54][t.pick(3)]);
    }
    o
}

/// library output for a source under a stylua_lib configuration (None = error)
pub fn lib_format(src: &str, config: sl::Config) -> Option<String> {
    crate::engine::install_quiet_panic_hook();
    std::panic::catch_unwind(|| sl::format_code(src, config, None, sl::OutputVerification::None).ok()).ok().flatten()
}

/// library output with an optional range and the verification mode of the command line (`--verify`)
pub fn lib_format_full(src: &str, config: sl::Config, range: (Option<usize>, Option<usize>), verify: bool) -> Option<String> {
    crate::engine::install_quiet_panic_hook();
    let r = if range.0.is_some() || range.1.is_some() { Some(sl::Range::from_values(range.0, range.1)) } else { None };
    let v = if verify { sl::OutputVerification::Full } else { sl::OutputVerification::None };
    std::panic::catch_unwind(|| sl::format_code(src, config, r, v).ok()).ok().flatten()
}

/// The probe program: its formatted text differs for every option value
pub const PROBE: &str = "local  s = 'it\\'s \"q\"'\nlocal t = {  a = 1, bb = function() return 1 end,\n    c = \"str\" }\nrequire 'mod'\nlocal zz = require(\"zz\")\nlocal aa = require(\"aa\")\nif x then return end\nlocal function f( a, b ) return a + b end\ncall_something(argument_number_one, argument_number_two, argument_number_three, 'four')\nf { 1 }\ndo\n  do\n    do\n      nested_call(argument_one, argument_two, aaaaaaaaaaaaaaaaaaaaaaaaaaaaaaaaaaaaaaaaaaaaaaaaaaaaaaaaaaaaaaa)\n      nested_call(argument_one, argument_two, aaaaaaaaaaaaaaaaaaaaaaaaaaaaaaaaaaaaaaaaaaaaaaaaaaaaaaaaaaaaaaaaaaaaa)\n      nested_call(argument_one, argument_two, aaaaaaaaaaaaaaaaaaaaaaaaaaaaaaaaaaaaaaaaaaaaaaaaaaaaaaaaaaaaaaaaaaaaaaaa)\n      nested_call(argument_one, argument_two, aaaaaaaaaaaaaaaaaaaaaaaaaaaaaaaaaaaaaaaaaaaaaaaaaaaaaaaaaaaaaaaaaaaaaaaaaa)\n    end\n  end\nend\n";

/// a small unformatted but valid program, different for every `k`
pub fn messy_program(k: usize) -> String {
    format!("local   x{k} = {{ 1,2,  3 }}\nif x{k} then\n      print( 'v{k}' , x{k}[1] )\nend\nlocal function f{k}( a,b ) return a+b end\n")
}
