//! Choice tape: every random decision of a generator is one byte of a tape, so that the same
//! decoder serves proptest (`vec(u8)` strategy, shrinking towards short tapes of small bytes)
//! and libFuzzer (raw input bytes). Small bytes mean simple choices.

pub struct Tape<'a> {
    data: &'a [u8],
    pos: usize,
}

impl<'a> Tape<'a> {
    pub fn new(data: &'a [u8]) -> Self {
        Tape { data, pos: 0 }
    }
    /// next byte, 0 when the tape is exhausted
    pub fn byte(&mut self) -> u8 {
        let b = self.data.get(self.pos).copied().unwrap_or(0);
        self.pos += 1;
        b
    }
    /// monotone choice in 0..n (n <= 256)
    pub fn pick(&mut self, n: usize) -> usize {
        debug_assert!(n >= 1 && n <= 256);
        (self.byte() as usize * n) >> 8
    }
    /// choice in 0..n for larger n (two bytes)
    pub fn pick_wide(&mut self, n: usize) -> usize {
        let v = ((self.byte() as usize) << 8) | self.byte() as usize;
        (v * n) >> 16
    }
    /// true with probability per256/256; false for small bytes (the simple choice)
    pub fn chance(&mut self, per256: u32) -> bool {
        (self.byte() as u32) >= 256 - per256.min(256)
    }
    pub fn exhausted(&self) -> bool {
        self.pos >= self.data.len()
    }
    pub fn consumed(&self) -> usize {
        self.pos
    }
}
