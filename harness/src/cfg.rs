//! Configuration values: a serialisable mirror of `stylua_lib::Config`, the fixed catalogue used
//! for the corpus tier (T0) and the generator used for generated cases.

use crate::lex::Syntax;
use crate::tape::Tape;
use serde::{Deserialize, Serialize};
use stylua_lib as sl;

#[derive(Clone, Copy, Debug, PartialEq, Eq, Hash, Serialize, Deserialize)]
pub enum Indent {
    Tabs,
    Spaces,
}
#[derive(Clone, Copy, Debug, PartialEq, Eq, Hash, Serialize, Deserialize)]
pub enum Endings {
    Unix,
    Windows,
}
#[derive(Clone, Copy, Debug, PartialEq, Eq, Hash, Serialize, Deserialize)]
pub enum Quotes {
    AutoPreferDouble,
    AutoPreferSingle,
    ForceDouble,
    ForceSingle,
}
#[derive(Clone, Copy, Debug, PartialEq, Eq, Hash, Serialize, Deserialize)]
pub enum CallParens {
    Always,
    NoSingleString,
    NoSingleTable,
    None,
    Input,
}
#[derive(Clone, Copy, Debug, PartialEq, Eq, Hash, Serialize, Deserialize)]
pub enum Collapse {
    Never,
    FunctionOnly,
    ConditionalOnly,
    Always,
}
#[derive(Clone, Copy, Debug, PartialEq, Eq, Hash, Serialize, Deserialize)]
pub enum SpaceAfter {
    Never,
    Definitions,
    Calls,
    Always,
}

pub const QUOTES: [Quotes; 4] = [Quotes::AutoPreferDouble, Quotes::AutoPreferSingle, Quotes::ForceDouble, Quotes::ForceSingle];
pub const CALLPARENS: [CallParens; 5] = [CallParens::Always, CallParens::NoSingleString, CallParens::NoSingleTable, CallParens::None, CallParens::Input];
pub const COLLAPSE: [Collapse; 4] = [Collapse::Never, Collapse::FunctionOnly, Collapse::ConditionalOnly, Collapse::Always];
pub const SPACEAFTER: [SpaceAfter; 4] = [SpaceAfter::Never, SpaceAfter::Definitions, SpaceAfter::Calls, SpaceAfter::Always];

#[derive(Clone, Copy, Debug, PartialEq, Eq, Hash, Serialize, Deserialize)]
pub struct Cfg {
    pub syntax: Syntax,
    pub column_width: usize,
    pub line_endings: Endings,
    pub indent_type: Indent,
    pub indent_width: usize,
    pub quote_style: Quotes,
    pub call_parentheses: CallParens,
    pub collapse: Collapse,
    pub sort_requires: bool,
    pub space_after: SpaceAfter,
}

impl Cfg {
    pub fn default_for(syntax: Syntax) -> Cfg {
        Cfg {
            syntax,
            column_width: 120,
            line_endings: Endings::Unix,
            indent_type: Indent::Tabs,
            indent_width: 4,
            quote_style: Quotes::AutoPreferDouble,
            call_parentheses: CallParens::Always,
            collapse: Collapse::Never,
            sort_requires: false,
            space_after: SpaceAfter::Never,
        }
    }

    pub fn is_default_options(&self) -> bool {
        let d = Cfg::default_for(self.syntax);
        Cfg { column_width: d.column_width, ..*self } == d
    }

    pub fn to_stylua(&self) -> sl::Config {
        let mut c = sl::Config::default();
        c.syntax = match self.syntax {
            Syntax::Lua51 => sl::LuaVersion::Lua51,
            Syntax::Lua52 => sl::LuaVersion::Lua52,
            Syntax::Lua53 => sl::LuaVersion::Lua53,
            Syntax::Lua54 => sl::LuaVersion::Lua54,
            Syntax::LuaJIT => sl::LuaVersion::LuaJIT,
            Syntax::Luau => sl::LuaVersion::Luau,
        };
        c.column_width = self.column_width;
        c.line_endings = match self.line_endings {
            Endings::Unix => sl::LineEndings::Unix,
            Endings::Windows => sl::LineEndings::Windows,
        };
        c.indent_type = match self.indent_type {
            Indent::Tabs => sl::IndentType::Tabs,
            Indent::Spaces => sl::IndentType::Spaces,
        };
        c.indent_width = self.indent_width;
        c.quote_style = match self.quote_style {
            Quotes::AutoPreferDouble => sl::QuoteStyle::AutoPreferDouble,
            Quotes::AutoPreferSingle => sl::QuoteStyle::AutoPreferSingle,
            Quotes::ForceDouble => sl::QuoteStyle::ForceDouble,
            Quotes::ForceSingle => sl::QuoteStyle::ForceSingle,
        };
        c.call_parentheses = match self.call_parentheses {
            CallParens::Always => sl::CallParenType::Always,
            CallParens::NoSingleString => sl::CallParenType::NoSingleString,
            CallParens::NoSingleTable => sl::CallParenType::NoSingleTable,
            CallParens::None => sl::CallParenType::None,
            CallParens::Input => sl::CallParenType::Input,
        };
        c.collapse_simple_statement = match self.collapse {
            Collapse::Never => sl::CollapseSimpleStatement::Never,
            Collapse::FunctionOnly => sl::CollapseSimpleStatement::FunctionOnly,
            Collapse::ConditionalOnly => sl::CollapseSimpleStatement::ConditionalOnly,
            Collapse::Always => sl::CollapseSimpleStatement::Always,
        };
        c.sort_requires = sl::SortRequiresConfig { enabled: self.sort_requires };
        c.space_after_function_names = match self.space_after {
            SpaceAfter::Never => sl::SpaceAfterFunctionNames::Never,
            SpaceAfter::Definitions => sl::SpaceAfterFunctionNames::Definitions,
            SpaceAfter::Calls => sl::SpaceAfterFunctionNames::Calls,
            SpaceAfter::Always => sl::SpaceAfterFunctionNames::Always,
        };
        c
    }

    /// short label used in evidence, findings and domain files
    pub fn label(&self) -> String {
        let d = Cfg::default_for(self.syntax);
        let mut parts = Vec::new();
        if self.column_width != d.column_width {
            parts.push(if self.column_width == usize::MAX { "w=max".to_string() } else { format!("w={}", self.column_width) });
        }
        if self.line_endings != d.line_endings {
            parts.push("crlf".into());
        }
        if self.indent_type != d.indent_type || self.indent_width != d.indent_width {
            parts.push(format!("{}{}", if self.indent_type == Indent::Tabs { "tabs" } else { "sp" }, self.indent_width));
        }
        if self.quote_style != d.quote_style {
            parts.push(format!("q={:?}", self.quote_style));
        }
        if self.call_parentheses != d.call_parentheses {
            parts.push(format!("cp={:?}", self.call_parentheses));
        }
        if self.collapse != d.collapse {
            parts.push(format!("col={:?}", self.collapse));
        }
        if self.sort_requires {
            parts.push("sort".into());
        }
        if self.space_after != d.space_after {
            parts.push(format!("sp={:?}", self.space_after));
        }
        if parts.is_empty() {
            "default".into()
        } else {
            parts.join(",")
        }
    }
}

/// The fixed configuration catalogue of the corpus tier (T0). Order and content are part of the
/// pinned domain: entries are only ever appended.
pub fn catalogue(syntax: Syntax) -> Vec<Cfg> {
    let d = Cfg::default_for(syntax);
    let mut v = vec![d];
    for w in [usize::MAX, 80, 40, 20, 1] {
        v.push(Cfg { column_width: w, ..d });
    }
    v.push(Cfg { indent_type: Indent::Spaces, indent_width: 2, ..d });
    v.push(Cfg { indent_type: Indent::Spaces, indent_width: 8, ..d });
    v.push(Cfg { line_endings: Endings::Windows, ..d });
    for q in &QUOTES[1..] {
        v.push(Cfg { quote_style: *q, ..d });
    }
    for c in &CALLPARENS[1..] {
        v.push(Cfg { call_parentheses: *c, ..d });
    }
    for c in &COLLAPSE[1..] {
        v.push(Cfg { collapse: *c, ..d });
    }
    for s in &SPACEAFTER[1..] {
        v.push(Cfg { space_after: *s, ..d });
    }
    v.push(Cfg { sort_requires: true, ..d });
    // combinations
    v.push(Cfg {
        column_width: 60,
        indent_type: Indent::Spaces,
        indent_width: 2,
        quote_style: Quotes::AutoPreferSingle,
        call_parentheses: CallParens::None,
        collapse: Collapse::Always,
        space_after: SpaceAfter::Always,
        line_endings: Endings::Windows,
        ..d
    });
    v.push(Cfg {
        column_width: 100,
        indent_type: Indent::Spaces,
        indent_width: 3,
        quote_style: Quotes::ForceSingle,
        call_parentheses: CallParens::Input,
        collapse: Collapse::FunctionOnly,
        space_after: SpaceAfter::Calls,
        sort_requires: true,
        ..d
    });
    v
}

/// Draws a configuration from a choice tape. Small bytes give values close to the default.
pub fn gen_cfg(t: &mut Tape, syntax: Syntax) -> Cfg {
    let width = match t.pick(12) {
        0 => 120,
        1 => 80,
        2 => usize::MAX,
        3 => 40,
        4 => 100,
        5 => 60,
        6 => 20,
        7 => 10,
        8 => 1,
        9 => 200,
        _ => 1 + t.pick(160),
    };
    let indent_type = if t.pick(2) == 0 { Indent::Tabs } else { Indent::Spaces };
    let indent_width = match t.pick(6) {
        0 => 4,
        1 => 2,
        2 => 8,
        3 => 3,
        4 => 1,
        _ => 1 + t.pick(16),
    };
    Cfg {
        syntax,
        column_width: width,
        line_endings: if t.pick(4) == 3 { Endings::Windows } else { Endings::Unix },
        indent_type,
        indent_width,
        quote_style: QUOTES[t.pick(4)],
        call_parentheses: CALLPARENS[t.pick(5)],
        collapse: COLLAPSE[t.pick(4)],
        sort_requires: false,
        space_after: SPACEAFTER[t.pick(4)],
    }
}
