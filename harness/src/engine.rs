//! Engine E1: runs `stylua_lib::format_code` in-process on (source, config, range, verify)
//! cases, catching unwinds, counting formatter ticks, in parallel workers with large stacks.

use crate::cfg::Cfg;
use serde::{Deserialize, Serialize};
use std::cell::RefCell;
use std::panic::{catch_unwind, AssertUnwindSafe};
use std::sync::atomic::{AtomicUsize, Ordering};
use std::sync::Mutex;

#[derive(Clone, Debug, Serialize, Deserialize, PartialEq, Eq, Hash)]
pub struct Case {
    pub source: String,
    pub cfg: Cfg,
    /// (start, end) byte offsets, each optional
    #[serde(default)]
    pub range: Option<(Option<usize>, Option<usize>)>,
    #[serde(default)]
    pub verify: bool,
}

impl Case {
    pub fn new(source: impl Into<String>, cfg: Cfg) -> Case {
        Case { source: source.into(), cfg, range: None, verify: false }
    }
    pub fn hash64(&self) -> u64 {
        use std::hash::{Hash, Hasher};
        let mut h = std::collections::hash_map::DefaultHasher::new();
        self.hash(&mut h);
        h.finish()
    }
}

#[derive(Clone, Debug, PartialEq, Eq)]
pub enum Outcome {
    Ok(String),
    ParseError(String),
    VerifyError(String),
    Panic(String),
    /// tick budget exceeded (value = ticks at that point)
    Budget(u64),
}

thread_local! {
    static LAST_PANIC: RefCell<String> = RefCell::new(String::new());
}

static HOOK: std::sync::Once = std::sync::Once::new();

/// Installs a panic hook that records message and location instead of printing them
pub fn install_quiet_panic_hook() {
    HOOK.call_once(|| {
        std::panic::set_hook(Box::new(|info| {
            let loc = info.location().map(|l| format!("{}:{}", l.file(), l.line())).unwrap_or_default();
            let msg = if let Some(s) = info.payload().downcast_ref::<&str>() {
                s.to_string()
            } else if let Some(s) = info.payload().downcast_ref::<String>() {
                s.clone()
            } else if info.payload().downcast_ref::<stylua_lib::verif_hooks::TickBudgetExceeded>().is_some() {
                "tick budget exceeded".to_string()
            } else {
                "<non-string panic>".to_string()
            };
            let first = msg.lines().next().unwrap_or("").chars().take(200).collect::<String>();
            LAST_PANIC.with(|p| *p.borrow_mut() = format!("{loc}: {first}"));
        }));
    });
}

pub const DEFAULT_TICK_BUDGET: u64 = 200_000_000;

/// Formats one case. Returns the outcome and the number of formatter ticks used.
pub fn run_format(case: &Case) -> (Outcome, u64) {
    run_format_budget(case, DEFAULT_TICK_BUDGET)
}

pub fn run_format_budget(case: &Case, budget: u64) -> (Outcome, u64) {
    install_quiet_panic_hook();
    let config = case.cfg.to_stylua();
    let range = case.range.map(|(s, e)| stylua_lib::Range::from_values(s, e));
    let verify = if case.verify { stylua_lib::OutputVerification::Full } else { stylua_lib::OutputVerification::None };
    stylua_lib::verif_hooks::reset();
    stylua_lib::verif_hooks::set_budget(budget);
    let r = catch_unwind(AssertUnwindSafe(|| stylua_lib::format_code(&case.source, config, range, verify)));
    stylua_lib::verif_hooks::set_budget(u64::MAX);
    let ticks = stylua_lib::verif_hooks::ticks();
    let out = match r {
        Ok(Ok(s)) => Outcome::Ok(s),
        Ok(Err(stylua_lib::Error::ParseError(e))) => Outcome::ParseError(e.iter().map(|x| x.to_string()).collect::<Vec<_>>().join("; ")),
        Ok(Err(e)) => Outcome::VerifyError(e.to_string().chars().take(120).collect()),
        Err(payload) => {
            if let Some(b) = payload.downcast_ref::<stylua_lib::verif_hooks::TickBudgetExceeded>() {
                Outcome::Budget(b.0)
            } else {
                Outcome::Panic(LAST_PANIC.with(|p| p.borrow().clone()))
            }
        }
    };
    (out, ticks)
}

/// Runs `f` under catch_unwind with the quiet hook; Err = panic description
pub fn guarded<T>(f: impl FnOnce() -> T) -> Result<T, String> {
    install_quiet_panic_hook();
    catch_unwind(AssertUnwindSafe(f)).map_err(|_| LAST_PANIC.with(|p| p.borrow().clone()))
}

pub fn num_workers() -> usize {
    std::env::var("VERIF_JOBS").ok().and_then(|s| s.parse().ok()).unwrap_or_else(|| std::thread::available_parallelism().map(|n| n.get()).unwrap_or(8)).max(1)
}

pub const WORKER_STACK: usize = 1 << 30;

/// Applies `f` to every item index in parallel (dynamic scheduling); results in item order
pub fn par_map<T: Sync, R: Send>(items: &[T], f: impl Fn(usize, &T) -> R + Sync) -> Vec<R> {
    let next = AtomicUsize::new(0);
    let results: Mutex<Vec<(usize, R)>> = Mutex::new(Vec::with_capacity(items.len()));
    let workers = num_workers().min(items.len().max(1));
    std::thread::scope(|s| {
        for w in 0..workers {
            let next = &next;
            let results = &results;
            let f = &f;
            std::thread::Builder::new()
                .name(format!("w{w}"))
                .stack_size(WORKER_STACK)
                .spawn_scoped(s, move || {
                    let mut local = Vec::new();
                    loop {
                        let i = next.fetch_add(1, Ordering::Relaxed);
                        if i >= items.len() {
                            break;
                        }
                        local.push((i, f(i, &items[i])));
                    }
                    results.lock().unwrap().append(&mut local);
                })
                .expect("spawn worker");
        }
    });
    let mut v = results.into_inner().unwrap();
    v.sort_by_key(|x| x.0);
    v.into_iter().map(|x| x.1).collect()
}

/// Runs `f(worker_index)` on every worker thread and collects the results
pub fn par_workers<R: Send>(workers: usize, f: impl Fn(usize) -> R + Sync) -> Vec<R> {
    let results: Mutex<Vec<(usize, R)>> = Mutex::new(Vec::new());
    std::thread::scope(|s| {
        for w in 0..workers {
            let results = &results;
            let f = &f;
            std::thread::Builder::new()
                .name(format!("w{w}"))
                .stack_size(WORKER_STACK)
                .spawn_scoped(s, move || {
                    let r = f(w);
                    results.lock().unwrap().push((w, r));
                })
                .expect("spawn worker");
        }
    });
    let mut v = results.into_inner().unwrap();
    v.sort_by_key(|x| x.0);
    v.into_iter().map(|x| x.1).collect()
}
