//! Independent model of the `.styluaignore` rules for a stated subset of gitignore syntax:
//! `name`, `name/`, `/name`, `dir/name`, `*.ext`, `prefix*`, `**/name`, `dir/**`, `!negation`, comments and blank lines.

#[derive(Debug, Clone)]
pub struct Pattern {
    pub negated: bool,
    pub dir_only: bool,
    pub anchored: bool,
    /// path segments of the pattern (`**` allowed as a whole segment)
    pub segments: Vec<String>,
}

pub fn parse_ignore(text: &str) -> Vec<Pattern> {
    let mut out = Vec::new();
    for line in text.lines() {
        let mut l = line.trim_end();
        if l.is_empty() || l.starts_with('#') {
            continue;
        }
        let mut negated = false;
        if let Some(r) = l.strip_prefix('!') {
            negated = true;
            l = r;
        }
        let mut dir_only = false;
        if let Some(r) = l.strip_suffix('/') {
            dir_only = true;
            l = r;
        }
        let mut anchored = false;
        if let Some(r) = l.strip_prefix('/') {
            anchored = true;
            l = r;
        }
        if l.contains('/') {
            anchored = true;
        }
        let mut segments: Vec<String> = l.split('/').map(|s| s.to_string()).collect();
        // a leading `**/` makes the rest match at any depth
        if segments.first().map(|s| s.as_str()) == Some("**") {
            anchored = true;
        }
        if segments.is_empty() {
            segments.push(String::new());
        }
        out.push(Pattern { negated, dir_only, anchored, segments });
    }
    out
}

/// glob match of one path segment (`*` and `?`, no `/`)
pub fn seg_match(pat: &str, s: &str) -> bool {
    let p: Vec<char> = pat.chars().collect();
    let t: Vec<char> = s.chars().collect();
    fn go(p: &[char], t: &[char]) -> bool {
        match p.first() {
            None => t.is_empty(),
            Some('*') => (0..=t.len()).any(|k| go(&p[1..], &t[k..])),
            Some('?') => !t.is_empty() && go(&p[1..], &t[1..]),
            Some(c) => t.first() == Some(c) && go(&p[1..], &t[1..]),
        }
    }
    go(&p, &t)
}

fn segs_match(pat: &[String], path: &[&str]) -> bool {
    match pat.first() {
        None => path.is_empty(),
        Some(p) if p == "**" => {
            if pat.len() == 1 {
                // trailing `**` matches everything below
                return !path.is_empty();
            }
            (0..=path.len()).any(|k| segs_match(&pat[1..], &path[k..]))
        }
        Some(p) => !path.is_empty() && seg_match(p, path[0]) && segs_match(&pat[1..], &path[1..]),
    }
}

impl Pattern {
    /// does the pattern match `path` (relative to the ignore file's directory)?
    pub fn matches(&self, path: &str, is_dir: bool) -> bool {
        if self.dir_only && !is_dir {
            return false;
        }
        let parts: Vec<&str> = path.split('/').filter(|s| !s.is_empty()).collect();
        if parts.is_empty() {
            return false;
        }
        if self.anchored {
            segs_match(&self.segments, &parts)
        } else {
            // a pattern without a slash matches the last component at any depth
            self.segments.len() == 1 && seg_match(&self.segments[0], parts[parts.len() - 1])
        }
    }
}

#[derive(Debug, Clone, Copy, PartialEq, Eq)]
pub enum Match {
    None,
    Ignore,
    Whitelist,
}

/// last matching pattern wins
pub fn match_path(patterns: &[Pattern], path: &str, is_dir: bool) -> Match {
    let mut m = Match::None;
    for p in patterns {
        if p.matches(path, is_dir) {
            m = if p.negated { Match::Whitelist } else { Match::Ignore };
        }
    }
    m
}

/// the path itself, then each parent directory up to the root: the first one with a match decides
/// (semantics of `Gitignore::matched_path_or_any_parents`)
pub fn match_path_or_parents(patterns: &[Pattern], path: &str) -> Match {
    let parts: Vec<&str> = path.split('/').filter(|s| !s.is_empty()).collect();
    for n in (1..=parts.len()).rev() {
        let sub = parts[..n].join("/");
        let m = match_path(patterns, &sub, n < parts.len());
        if m != Match::None {
            return m;
        }
    }
    Match::None
}

#[cfg(test)]
mod tests {
    use super::*;
    #[test]
    fn basics() {
        let p = parse_ignore("*.gen.lua\n!keep.gen.lua\nvendor/\n/top.lua\nsub/x.lua\n**/deep.lua\n");
        assert_eq!(match_path(&p, "a/b.gen.lua", false), Match::Ignore);
        assert_eq!(match_path(&p, "a/keep.gen.lua", false), Match::Whitelist);
        assert_eq!(match_path(&p, "vendor", true), Match::Ignore);
        assert_eq!(match_path(&p, "vendor", false), Match::None);
        assert_eq!(match_path(&p, "top.lua", false), Match::Ignore);
        assert_eq!(match_path(&p, "a/top.lua", false), Match::None);
        assert_eq!(match_path(&p, "sub/x.lua", false), Match::Ignore);
        assert_eq!(match_path(&p, "a/sub/x.lua", false), Match::None);
        assert_eq!(match_path(&p, "a/b/deep.lua", false), Match::Ignore);
        assert_eq!(match_path(&p, "deep.lua", false), Match::Ignore);
        assert_eq!(match_path_or_parents(&p, "vendor/a/b.lua"), Match::Ignore);
    }
}
