//! The pinned corpus: a copy of the repository's test inputs under /verif/corpus, each with the
//! syntax its test uses.

use crate::lex::Syntax;
use std::path::{Path, PathBuf};

#[derive(Clone, Debug)]
pub struct CorpusFile {
    /// e.g. `inputs/assignment.lua`
    pub name: String,
    pub syntax: Syntax,
    pub source: String,
}

pub fn verif_root() -> PathBuf {
    std::env::var("VERIF_ROOT").map(PathBuf::from).unwrap_or_else(|_| PathBuf::from("/verif"))
}

const DIRS: [(&str, Syntax); 10] = [
    ("inputs", Syntax::Lua51),
    ("inputs-collapse-single-statement", Syntax::Lua51),
    ("inputs-full_moon", Syntax::Lua51),
    ("inputs-ignore", Syntax::Lua51),
    ("inputs-lua52", Syntax::Lua52),
    ("inputs-lua53", Syntax::Lua53),
    ("inputs-lua54", Syntax::Lua54),
    ("inputs-luau", Syntax::Luau),
    ("inputs-luau-full_moon", Syntax::Luau),
    ("inputs-sort-requires", Syntax::Lua51),
];

pub fn load_dir(root: &Path, dir: &str, syntax: Syntax, out: &mut Vec<CorpusFile>) {
    let mut names: Vec<_> = match std::fs::read_dir(root.join(dir)) {
        Ok(rd) => rd.filter_map(|e| e.ok()).map(|e| e.file_name().to_string_lossy().to_string()).filter(|n| n.ends_with(".lua")).collect(),
        Err(_) => Vec::new(),
    };
    names.sort();
    for n in names {
        if let Ok(source) = std::fs::read_to_string(root.join(dir).join(&n)) {
            out.push(CorpusFile { name: format!("{dir}/{n}"), syntax, source });
        }
    }
}

pub fn load() -> Vec<CorpusFile> {
    let root = verif_root().join("corpus");
    let mut out = Vec::new();
    for (d, s) in DIRS.iter() {
        load_dir(&root, d, *s, &mut out);
    }
    out
}
