//! Executable oracles for the library-level properties.

use crate::engine::{guarded, run_format, Case, Outcome};
use crate::lex::{self, Kind, Syntax, Tok};
use crate::norm;

#[derive(Clone, Debug, PartialEq, Eq)]
pub enum Verdict {
    /// the property held on this case; `nontrivial` by the property's rule
    Pass { nontrivial: bool },
    Fail(String),
    /// the case is outside the property's quantifier (e.g. input does not parse)
    Skip(&'static str),
}

impl Verdict {
    pub fn is_fail(&self) -> bool {
        matches!(self, Verdict::Fail(_))
    }
}

fn short(s: &str, n: usize) -> String {
    let mut t: String = s.chars().take(n).collect();
    if s.chars().count() > n {
        t.push('…');
    }
    t
}

/// Parse with the trusted parser, treating a panic of the parser as "does not parse"
pub fn parses(src: &str, syn: Syntax) -> Result<(), String> {
    match guarded(|| norm::parse(src, syn).map(|_| ())) {
        Ok(r) => r,
        Err(p) => Err(format!("parser panicked: {p}")),
    }
}

/// The trusted parser must reproduce the input when its tree is printed. full_moon accepts some malformed text
/// (e.g. a truncated Luau type table) by silently dropping tokens; on such input no claim is made.
pub fn parser_lossless(src: &str, syn: Syntax) -> bool {
    matches!(guarded(|| norm::parse(src, syn).map(|a| a.to_string() == src && lexer_agrees(&a, src, syn))), Ok(Ok(true)))
}

/// The trusted parser reports success but its tree does not print back to the input: tokens were dropped or
/// invented (known finding KF-C07-fullmoon-lossy-parse, e.g. a Luau `type Foo =` at the end of the text)
pub fn parser_drops_tokens(src: &str, syn: Syntax) -> bool {
    matches!(guarded(|| norm::parse(src, syn).map(|a| a.to_string() != src)), Ok(Ok(true)))
}

/// Known finding KF-C04-lone-cr-before-crlf: a carriage return that is not part of a CRLF and stands directly after a
/// line feed or directly before a CRLF
pub fn lone_cr_next_to_break(src: &str) -> bool {
    let b = src.as_bytes();
    for i in 0..b.len() {
        if b[i] == b'\r' && b.get(i + 1) != Some(&b'\n') {
            let after_lf = i > 0 && b[i - 1] == b'\n';
            let before_crlf = b.get(i + 1) == Some(&b'\r') && b.get(i + 2) == Some(&b'\n');
            if after_lf || before_crlf {
                return true;
            }
        }
    }
    false
}

/// Self-check of the checker's lexer (harness soundness, never a violation): its code-token boundaries must be
/// the parser's (`5do` is one malformed number for a Lua lexer but `5` `do` for full_moon; such input is not judged).
fn lexer_agrees(ast: &full_moon::ast::Ast, src: &str, syn: Syntax) -> bool {
    use full_moon::node::Node;
    let Ok(toks) = lex::lex(src, syn) else { return false };
    // a quoted string with a malformed `\x` / `\u` escape has no value in the dialects that know these escapes (and
    // another one in Lua 5.1): no claim about such input
    if toks.iter().any(|t| matches!(t.kind, Kind::Quoted(_)) && lex::has_malformed_escape(&src.as_bytes()[t.start + 1..t.end - 1])) {
        return false;
    }
    let mine: Vec<(usize, usize)> = toks.iter().filter(|t| !t.kind.is_trivia()).map(|t| (t.start, t.end)).collect();
    let mut theirs: Vec<(usize, usize)> = Vec::with_capacity(mine.len());
    for t in ast.nodes().tokens() {
        let (s, e) = (t.token().start_position().bytes(), t.token().end_position().bytes());
        if e > s {
            theirs.push((s, e));
        }
    }
    theirs.sort();
    // the parser splits `>>` inside type arguments into two tokens
    let mut i = 0;
    let mut j = 0;
    while i < mine.len() && j < theirs.len() {
        if mine[i] == theirs[j] {
            i += 1;
            j += 1;
        } else if &src[mine[i].0..mine[i].1] == ">>" && j + 1 < theirs.len() && theirs[j].0 == mine[i].0 && theirs[j + 1].1 == mine[i].1 && theirs[j].1 == theirs[j + 1].0 {
            i += 1;
            j += 2;
        } else {
            return false;
        }
    }
    i == mine.len() && j == theirs.len()
}

const LOSSY: &str = "the trusted parser is not lossless on this input, or its tokens differ from the checker's lexer";

fn lex_ok(src: &str, syn: Syntax) -> Result<Vec<Tok>, String> {
    lex::lex(src, syn).map_err(|e| format!("checker lexer: {} at byte {}", e.msg, e.at))
}

/// number of non-trivia tokens (cheap size measure)
pub fn code_tokens(src: &str, syn: Syntax) -> usize {
    lex::lex(src, syn).map(|t| t.iter().filter(|k| !k.kind.is_trivia()).count()).unwrap_or(0)
}

// ------------------------------------------------------------------------------------------
// C01

pub fn c01(case: &Case, out: &Outcome) -> Verdict {
    let syn = case.cfg.syntax;
    match out {
        Outcome::ParseError(_) => Verdict::Skip("input does not parse"),
        Outcome::Ok(q) => {
            if !parser_lossless(&case.source, syn) {
                return Verdict::Skip(LOSSY);
            }
            if let Err(e) = parses(q, syn) {
                return Verdict::Fail(format!("output does not parse: {}", short(&e, 200)));
            }
            match lex_ok(q, syn) {
                Err(e) => Verdict::Fail(format!("output does not lex: {e}")),
                Ok(_) => Verdict::Pass { nontrivial: *q != case.source && code_tokens(&case.source, syn) >= 6 },
            }
        }
        // a crash / verification error is C07's business, not a statement about the output
        _ => Verdict::Skip("no output"),
    }
}

// ------------------------------------------------------------------------------------------
// C02

fn t_diff(a: &[String], b: &[String]) -> Option<String> {
    if a == b {
        return None;
    }
    let i = a.iter().zip(b.iter()).position(|(x, y)| x != y).unwrap_or(a.len().min(b.len()));
    let ctx = |v: &[String]| v[i.saturating_sub(2)..(i + 3).min(v.len())].join(" ");
    Some(format!("token {i}: input `{}` vs output `{}`", short(&ctx(a), 80), short(&ctx(b), 80)))
}

pub fn has_c02_interest(src: &str, toks: &[Tok]) -> bool {
    // redundant parenthesis / semicolon / escape or single quote / leading-dot number / call sugar / `;` in table
    let nt: Vec<&Tok> = toks.iter().filter(|t| !t.kind.is_trivia()).collect();
    for (i, t) in nt.iter().enumerate() {
        let text = t.text(src);
        match t.kind {
            Kind::Sym if text == ";" => return true,
            Kind::Sym if text == "(" => {
                // parenthesis that is not a call / definition parenthesis
                let prev = if i > 0 { Some(nt[i - 1]) } else { None };
                let is_call = prev.map_or(false, |p| matches!(p.kind, Kind::Name | Kind::Quoted(_) | Kind::LongStr(_)) || matches!(p.text(src), ")" | "]" | "}" | "function"));
                let prev_kw = prev.map_or(false, |p| p.kind == Kind::Name && matches!(p.text(src), "and" | "or" | "not" | "return" | "if" | "while" | "until" | "in" | "elseif" | "then" | "else" | "do"));
                if !is_call || prev_kw {
                    return true;
                }
            }
            Kind::Quoted(q) => {
                if q == b'\'' || text.contains('\\') {
                    return true;
                }
                if i > 0 && matches!(nt[i - 1].kind, Kind::Name) {
                    return true;
                }
            }
            Kind::Number if text.starts_with('.') => return true,
            _ => {}
        }
    }
    false
}

pub fn c02(case: &Case, out: &Outcome) -> Verdict {
    let syn = case.cfg.syntax;
    if case.cfg.sort_requires {
        return Verdict::Skip("sort_requires on");
    }
    match out {
        Outcome::ParseError(_) => Verdict::Skip("input does not parse"),
        Outcome::Ok(q) => {
            if !parser_lossless(&case.source, syn) {
                return Verdict::Skip(LOSSY);
            }
            let ti = match lex_ok(&case.source, syn) {
                Ok(t) => t,
                Err(_) => return Verdict::Skip("checker lexer rejects input"),
            };
            let to = match lex_ok(q, syn) {
                Ok(t) => t,
                Err(e) => return Verdict::Fail(format!("output does not lex: {e}")),
            };
            let a = lex::t_sequence(&case.source, &ti, syn);
            let b = lex::t_sequence(q, &to, syn);
            if let Some(d) = t_diff(&a, &b) {
                return Verdict::Fail(format!("token sequence T differs at {d}"));
            }
            let ni = match guarded(|| norm::normal_form(&case.source, syn)) {
                Ok(Ok(n)) => n,
                _ => return Verdict::Skip("input does not parse"),
            };
            let no = match guarded(|| norm::normal_form(q, syn)) {
                Ok(Ok(n)) => n,
                Ok(Err(e)) => return Verdict::Fail(format!("output does not parse: {}", short(&e, 160))),
                Err(p) => return Verdict::Fail(format!("output does not parse: parser panicked {p}")),
            };
            if ni != no {
                let d = norm::first_difference(&ni, &no).unwrap_or_default();
                return Verdict::Fail(format!("normal form N differs at {}", short(&d, 300)));
            }
            Verdict::Pass { nontrivial: *q != case.source && has_c02_interest(&case.source, &ti) }
        }
        _ => Verdict::Skip("no output"),
    }
}

// ------------------------------------------------------------------------------------------
// C03

pub fn c03(case: &Case, out: &Outcome) -> Verdict {
    let syn = case.cfg.syntax;
    match out {
        Outcome::ParseError(_) => Verdict::Skip("input does not parse"),
        Outcome::Ok(q) => {
            if !parser_lossless(&case.source, syn) {
                return Verdict::Skip(LOSSY);
            }
            let ti = match lex_ok(&case.source, syn) {
                Ok(t) => t,
                Err(_) => return Verdict::Skip("checker lexer rejects input"),
            };
            let to = match lex_ok(q, syn) {
                Ok(t) => t,
                Err(e) => return Verdict::Fail(format!("output does not lex: {e}")),
            };
            let mut ci: Vec<String> = lex::comments(&case.source, &ti).into_iter().map(|c| c.text).collect();
            let mut co: Vec<String> = lex::comments(q, &to).into_iter().map(|c| c.text).collect();
            let n_comments = ci.len();
            ci.sort();
            co.sort();
            if ci != co {
                // first comment that is missing or extra
                let mut i = 0;
                let mut j = 0;
                let mut msg = String::new();
                while i < ci.len() || j < co.len() {
                    if i < ci.len() && j < co.len() && ci[i] == co[j] {
                        i += 1;
                        j += 1;
                    } else if j >= co.len() || (i < ci.len() && ci[i] < co[j]) {
                        msg = format!("comment lost: `{}`", short(&ci[i], 80));
                        break;
                    } else {
                        msg = format!("comment created or altered: `{}`", short(&co[j], 80));
                        break;
                    }
                }
                return Verdict::Fail(format!("{msg} ({} comments in, {} out)", ci.len(), co.len()));
            }
            if !case.cfg.sort_requires {
                let a = lex::t_sequence(&case.source, &ti, syn);
                let b = lex::t_sequence(q, &to, syn);
                if let Some(d) = t_diff(&a, &b) {
                    return Verdict::Fail(format!("code tokens changed (code inside a comment?) at {d}"));
                }
            }
            Verdict::Pass { nontrivial: n_comments >= 1 && *q != case.source }
        }
        _ => Verdict::Skip("no output"),
    }
}

// ------------------------------------------------------------------------------------------
// C06

pub fn c06(case: &Case, out: &Outcome) -> Verdict {
    if !parser_lossless(&case.source, case.cfg.syntax) {
        return Verdict::Skip(LOSSY);
    }
    if case.range.is_some() {
        return Verdict::Skip("range given");
    }
    match out {
        Outcome::ParseError(_) => Verdict::Skip("input does not parse"),
        Outcome::Ok(q) => {
            let second = Case { source: q.clone(), cfg: case.cfg, range: None, verify: false };
            match run_format(&second).0 {
                Outcome::Ok(q2) => {
                    if q2 == *q {
                        Verdict::Pass { nontrivial: *q != case.source && q.lines().count() >= 2 }
                    } else {
                        let (la, lb) = first_line_diff(q, &q2);
                        Verdict::Fail(format!("second pass differs: first pass line `{}` vs second pass `{}`", short(&la, 100), short(&lb, 100)))
                    }
                }
                // the first output does not parse: that is C01's violation, not an idempotence statement
                Outcome::ParseError(_) => Verdict::Skip("first output does not parse (C01)"),
                other => Verdict::Fail(format!("second pass did not return output: {other:?}")),
            }
        }
        _ => Verdict::Skip("no output"),
    }
}

pub fn first_line_diff(a: &str, b: &str) -> (String, String) {
    let mut ia = a.split('\n');
    let mut ib = b.split('\n');
    loop {
        match (ia.next(), ib.next()) {
            (Some(x), Some(y)) if x == y => continue,
            (x, y) => return (x.unwrap_or("<end>").to_string(), y.unwrap_or("<end>").to_string()),
        }
    }
}

// ------------------------------------------------------------------------------------------
// C07: totality

/// A panic inside full_moon's parser on text that the parser does not accept is a known finding in the
/// dependency (KF-C07-fullmoon-parser-panic); the same location on valid input is not excused.
pub fn known_panic(msg: &str) -> Option<&'static str> {
    if msg.contains("/full_moon-") && msg.contains("/src/ast/pars") {
        Some("KF-C07-fullmoon-parser-panic")
    } else {
        None
    }
}

/// work bound: formatter ticks allowed for an input of `len` bytes
pub fn tick_bound(len: usize) -> u64 {
    (len as u64 * 5_000).max(1_000_000)
}

pub fn c07(case: &Case, out: &Outcome, ticks: u64) -> Verdict {
    let syn = case.cfg.syntax;
    let input_parses = parses(&case.source, syn);
    match out {
        Outcome::Panic(msg) => Verdict::Fail(format!("panic: {msg}")),
        Outcome::Budget(n) => Verdict::Fail(format!("work bound exceeded: more than {n} formatter ticks for {} input bytes", case.source.len())),
        Outcome::Ok(_) => {
            if let Err(e) = &input_parses {
                if !e.starts_with("parser panicked") {
                    return Verdict::Fail(format!("success returned for text that does not parse: {}", short(e, 120)));
                }
            }
            if parser_drops_tokens(&case.source, syn) {
                return Verdict::Fail("success returned for text that the parser did not consume in full (its tree does not print back to the input)".to_string());
            }
            if ticks > tick_bound(case.source.len()) {
                return Verdict::Fail(format!("work bound exceeded: {ticks} formatter ticks for {} input bytes", case.source.len()));
            }
            Verdict::Pass { nontrivial: true }
        }
        Outcome::ParseError(_) => {
            if input_parses.is_ok() {
                Verdict::Fail("parse error returned for text that parses".to_string())
            } else {
                Verdict::Pass { nontrivial: true }
            }
        }
        Outcome::VerifyError(e) => {
            // only possible in verify mode: the formatter reports that its own output is wrong; that is a
            // returned error, not a totality failure (C01/C02 judge the output itself)
            if case.verify {
                Verdict::Pass { nontrivial: true }
            } else {
                Verdict::Fail(format!("verification error without verify mode: {e}"))
            }
        }
    }
}

// ------------------------------------------------------------------------------------------
// C10: whitespace

pub fn has_ignore_directive(src: &str) -> bool {
    src.contains("stylua: ignore")
}

pub fn c10(case: &Case, out: &Outcome) -> Verdict {
    if !parser_lossless(&case.source, case.cfg.syntax) {
        return Verdict::Skip(LOSSY);
    }
    use crate::cfg::{Endings, Indent};
    let syn = case.cfg.syntax;
    if case.range.is_some() {
        return Verdict::Skip("range given");
    }
    if has_ignore_directive(&case.source) {
        return Verdict::Skip("ignore directive present");
    }
    let q = match out {
        Outcome::Ok(q) => q,
        Outcome::ParseError(_) => return Verdict::Skip("input does not parse"),
        _ => return Verdict::Skip("no output"),
    };
    let toks = match lex_ok(q, syn) {
        Ok(t) => t,
        Err(_) => return Verdict::Skip("output does not lex (C01)"),
    };
    let b = q.as_bytes();
    // mask: bytes inside string literals are content; bytes inside multi-line tokens are not line starts
    let mut in_string = vec![false; b.len()];
    let mut in_multiline = vec![false; b.len()];
    for t in &toks {
        match t.kind {
            Kind::Quoted(_) | Kind::LongStr(_) | Kind::Interp => {
                for i in t.start..t.end {
                    in_string[i] = true;
                    in_multiline[i] = true;
                }
            }
            Kind::BlockComment(_) => {
                for i in t.start..t.end {
                    in_multiline[i] = true;
                }
            }
            _ => {}
        }
    }
    let windows = case.cfg.line_endings == Endings::Windows;
    let line_of = |pos: usize| q[..pos].matches('\n').count() + 1;
    for i in 0..b.len() {
        if in_string[i] {
            continue;
        }
        if b[i] == b'\n' {
            let has_cr = i > 0 && b[i - 1] == b'\r' && !in_string[i - 1];
            if windows && !has_cr {
                return Verdict::Fail(format!("bare line feed at line {} under Windows line endings", line_of(i)));
            }
            if !windows && has_cr {
                return Verdict::Fail(format!("CRLF at line {} under Unix line endings", line_of(i)));
            }
        } else if b[i] == b'\r' {
            let followed = b.get(i + 1) == Some(&b'\n');
            if !followed || !windows {
                return Verdict::Fail(format!("stray carriage return at line {}", line_of(i)));
            }
            if i > 0 && b[i - 1] == b'\r' {
                return Verdict::Fail(format!("doubled carriage return at line {}", line_of(i)));
            }
        }
    }
    // indentation of every line that starts outside a multi-line token
    let mut start = 0;
    while start < b.len() {
        let end = b[start..].iter().position(|&c| c == b'\n').map(|p| start + p).unwrap_or(b.len());
        let starts_inside = start > 0 && in_multiline[start] && in_multiline[start - 1] && {
            // inside only if the same token covers start-1 and start: check that a token spans the newline
            toks.iter().any(|t| t.start < start && t.end > start && matches!(t.kind, Kind::Quoted(_) | Kind::LongStr(_) | Kind::Interp | Kind::BlockComment(_)))
        };
        if !starts_inside {
            let mut j = start;
            while j < end && (b[j] == b' ' || b[j] == b'\t') {
                j += 1;
            }
            let ws = &b[start..j];
            let blank_line = j == end || (j + 1 == end && b[j] == b'\r');
            if !blank_line {
                match case.cfg.indent_type {
                    Indent::Tabs => {
                        if ws.iter().any(|&c| c != b'\t') {
                            return Verdict::Fail(format!("indentation of line {} is not made of tabs only: {:?}", line_of(start), String::from_utf8_lossy(ws)));
                        }
                    }
                    Indent::Spaces => {
                        if ws.iter().any(|&c| c != b' ') {
                            return Verdict::Fail(format!("indentation of line {} contains a tab under Spaces", line_of(start)));
                        }
                        if ws.len() % case.cfg.indent_width != 0 {
                            return Verdict::Fail(format!("indentation of line {} is {} spaces, not a multiple of {}", line_of(start), ws.len(), case.cfg.indent_width));
                        }
                    }
                }
            } else if j > start && j == end {
                // whitespace-only line: leading whitespace rule applies too
            }
        }
        start = end + 1;
    }
    // end of file
    if !q.is_empty() {
        let ending: &str = if windows { "\r\n" } else { "\n" };
        if !q.ends_with(ending) {
            return Verdict::Fail("output does not end with the configured line ending".to_string());
        }
        let body = &q[..q.len() - ending.len()];
        if body.ends_with('\n') || body.ends_with('\r') {
            // allowed only if the final newline belongs to a string / comment token content
            let last = body.len() - 1;
            if !in_multiline[last] {
                return Verdict::Fail("output ends with more than one line ending".to_string());
            }
        }
    }
    let src = &case.source;
    let nontrivial = src.contains("\r") != windows || src.contains("\n ") || src.contains("\n\t") || !src.ends_with('\n') || src.ends_with("\n\n");
    Verdict::Pass { nontrivial: nontrivial && *q != case.source }
}

// ------------------------------------------------------------------------------------------
// C11: options

#[derive(Debug, Clone, PartialEq, Eq)]
pub struct CallSite {
    /// 'P' parentheses, 'S' string sugar, 'T' table sugar
    pub form: char,
    /// byte offset of `(` when form == 'P'
    pub paren_at: Option<usize>,
    /// for 'P' with exactly one argument: "String", "Table", "ParenString", "ParenTable" or ""
    pub single: &'static str,
    /// an index or method call follows
    pub obscure: bool,
}

fn tok_start(v: &serde_json::Value) -> Option<usize> {
    v.get("token")?.get("start_position")?.get("bytes")?.as_u64().map(|x| x as usize)
}

fn strip_parens_json(mut e: &serde_json::Value) -> (&serde_json::Value, bool) {
    let mut stripped = false;
    loop {
        match e.get("Parentheses") {
            Some(p) if p.get("contained").is_some() && p.get("expression").is_some() => {
                e = &p["expression"];
                stripped = true;
            }
            _ => return (e, stripped),
        }
    }
}

fn args_site(a: &serde_json::Value, obscure: bool) -> Option<CallSite> {
    if let Some(p) = a.get("Parentheses") {
        if let Some(arguments) = p.get("arguments") {
            let paren_at = p.get("parentheses").and_then(|c| c.get("tokens")).and_then(|t| t.get(0)).and_then(tok_start);
            let pairs = arguments.get("pairs").and_then(|x| x.as_array()).cloned().unwrap_or_default();
            let mut single = "";
            if pairs.len() == 1 {
                let e = if let Some(e) = pairs[0].get("End") { e } else { &pairs[0]["Punctuated"][0] };
                let (core, stripped) = strip_parens_json(e);
                single = match (core.get("String").is_some(), core.get("TableConstructor").is_some(), stripped) {
                    (true, _, false) => "String",
                    (_, true, false) => "Table",
                    (true, _, true) => "ParenString",
                    (_, true, true) => "ParenTable",
                    _ => "",
                };
            }
            return Some(CallSite { form: 'P', paren_at, single, obscure });
        }
    }
    if a.get("String").is_some() {
        return Some(CallSite { form: 'S', paren_at: None, single: "", obscure });
    }
    if a.get("TableConstructor").is_some() {
        return Some(CallSite { form: 'T', paren_at: None, single: "", obscure });
    }
    None
}

/// all call sites in source order of the tree walk, and the `(` offsets of function definitions
pub fn call_sites(ast: &serde_json::Value, calls: &mut Vec<CallSite>, defs: &mut Vec<usize>) {
    match ast {
        serde_json::Value::Array(a) => {
            for x in a {
                call_sites(x, calls, defs);
            }
        }
        serde_json::Value::Object(m) => {
            if let Some(sfx) = m.get("suffixes").and_then(|s| s.as_array()) {
                for (i, s) in sfx.iter().enumerate() {
                    let next = sfx.get(i + 1);
                    let obscure = next.map_or(false, |n| n.get("Index").is_some() || n.get("Call").map_or(false, |c| c.get("MethodCall").is_some()));
                    if let Some(c) = s.get("Call") {
                        let a = if let Some(a) = c.get("AnonymousCall") { Some(a) } else { c.get("MethodCall").and_then(|m| m.get("args")) };
                        if let Some(site) = a.and_then(|a| args_site(a, obscure)) {
                            calls.push(site);
                        }
                    }
                }
            }
            if let Some(pp) = m.get("parameters_parentheses") {
                if let Some(p) = pp.get("tokens").and_then(|t| t.get(0)).and_then(tok_start) {
                    defs.push(p);
                }
            }
            for (_, v) in m {
                call_sites(v, calls, defs);
            }
        }
        _ => {}
    }
}

fn ast_json(src: &str, syn: Syntax) -> Option<serde_json::Value> {
    match guarded(|| norm::parse(src, syn).ok().map(|a| serde_json::to_value(a.nodes()).ok())) {
        Ok(Some(Some(v))) => Some(v),
        _ => None,
    }
}

pub fn c11(case: &Case, out: &Outcome) -> Verdict {
    if !parser_lossless(&case.source, case.cfg.syntax) {
        return Verdict::Skip(LOSSY);
    }
    use crate::cfg::{CallParens, Quotes, SpaceAfter};
    let syn = case.cfg.syntax;
    if case.range.is_some() {
        return Verdict::Skip("range given");
    }
    if has_ignore_directive(&case.source) {
        return Verdict::Skip("ignore directive present");
    }
    let q = match out {
        Outcome::Ok(q) => q,
        Outcome::ParseError(_) => return Verdict::Skip("input does not parse"),
        _ => return Verdict::Skip("no output"),
    };
    let toks = match lex_ok(q, syn) {
        Ok(t) => t,
        Err(_) => return Verdict::Skip("output does not lex (C01)"),
    };
    let mut interesting = false;
    // quotes
    for t in &toks {
        if let Kind::Quoted(qc) = t.kind {
            let body = &q.as_bytes()[t.start + 1..t.end - 1];
            let s = body.iter().filter(|&&c| c == b'\'').count();
            let d = body.iter().filter(|&&c| c == b'"').count();
            let want: u8 = match case.cfg.quote_style {
                Quotes::ForceDouble => b'"',
                Quotes::ForceSingle => b'\'',
                Quotes::AutoPreferDouble => if d > s { b'\'' } else { b'"' },
                Quotes::AutoPreferSingle => if s > d { b'"' } else { b'\'' },
            };
            if s + d > 0 || qc != b'"' {
                interesting = true;
            }
            if qc != want {
                return Verdict::Fail(format!(
                    "string {} uses {} under {:?} ({} single and {} double quotes inside)",
                    short(t.text(q), 40),
                    qc as char,
                    case.cfg.quote_style,
                    s,
                    d
                ));
            }
        }
    }
    // call forms
    let Some(out_ast) = ast_json(q, syn) else { return Verdict::Skip("output does not parse (C01)") };
    let mut calls = Vec::new();
    let mut defs = Vec::new();
    call_sites(&out_ast, &mut calls, &mut defs);
    let Some(in_ast) = ast_json(&case.source, syn) else { return Verdict::Skip("input does not parse") };
    let mut in_calls = Vec::new();
    let mut in_defs = Vec::new();
    call_sites(&in_ast, &mut in_calls, &mut in_defs);
    let omit_string = matches!(case.cfg.call_parentheses, CallParens::None | CallParens::NoSingleString);
    let omit_table = matches!(case.cfg.call_parentheses, CallParens::None | CallParens::NoSingleTable);
    for c in &calls {
        if c.form != 'P' {
            interesting = true;
        }
        match case.cfg.call_parentheses {
            CallParens::Always => {
                if c.form != 'P' {
                    return Verdict::Fail(format!("call without parentheses (form {}) under call_parentheses=Always", c.form));
                }
            }
            CallParens::Input => {}
            _ => {
                if c.form == 'P' && !c.obscure && ((c.single == "String" && omit_string) || (c.single == "Table" && omit_table)) {
                    return Verdict::Fail(format!("single {} argument keeps its call parentheses under {:?}", c.single, case.cfg.call_parentheses));
                }
            }
        }
    }
    // the converse (README: "parentheses are still kept in situations where removal can lead to obscurity", e.g. before
    // an index or a method call on the call's result): a call that had its parentheses in the input may not lose
    // them there
    if matches!(case.cfg.call_parentheses, CallParens::None | CallParens::NoSingleString | CallParens::NoSingleTable) && in_calls.len() == calls.len() {
        for (i, o) in in_calls.iter().zip(calls.iter()) {
            if i.form == 'P' && o.form != 'P' && o.obscure {
                return Verdict::Fail(format!(
                    "call parentheses removed in front of an index / method call on the result (form {}) under {:?}",
                    o.form, case.cfg.call_parentheses
                ));
            }
        }
    }
    if case.cfg.call_parentheses == CallParens::Input {
        let a: String = in_calls.iter().map(|c| c.form).collect();
        let b: String = calls.iter().map(|c| c.form).collect();
        if a != b {
            return Verdict::Fail(format!("call forms changed under call_parentheses=Input: {} -> {}", short(&a, 60), short(&b, 60)));
        }
    }
    if in_calls.iter().any(|c| c.form != 'P' || !c.single.is_empty()) {
        interesting = true;
    }
    // spaces
    let code: Vec<&Tok> = toks.iter().filter(|t| !t.kind.is_trivia()).collect();
    let check_space = |at: usize, want: bool, what: &str| -> Option<String> {
        let idx = code.iter().position(|t| t.start == at)?;
        if idx == 0 {
            return None;
        }
        let prev = code[idx - 1];
        let gap = &q[prev.end..at];
        if gap.contains('\n') || gap.contains("--") {
            return None;
        }
        // a generic parameter list sits between the name and `(`
        if prev.text(q) == ">" {
            return None;
        }
        let ok = if want { gap == " " } else { gap.is_empty() };
        if ok {
            None
        } else {
            Some(format!("{what}: {:?} between `{}` and `(` under space_after_function_names={:?}", gap, short(prev.text(q), 20), case.cfg.space_after))
        }
    };
    let want_call = matches!(case.cfg.space_after, SpaceAfter::Calls | SpaceAfter::Always);
    let want_def = matches!(case.cfg.space_after, SpaceAfter::Definitions | SpaceAfter::Always);
    for c in &calls {
        if let Some(at) = c.paren_at {
            if let Some(e) = check_space(at, want_call, "call") {
                return Verdict::Fail(e);
            }
        }
    }
    for d in &defs {
        if let Some(e) = check_space(*d, want_def, "definition") {
            return Verdict::Fail(e);
        }
    }
    if !calls.is_empty() || !defs.is_empty() {
        interesting = interesting || case.cfg.space_after != SpaceAfter::Never;
    }
    Verdict::Pass { nontrivial: interesting && *q != case.source }
}

// ------------------------------------------------------------------------------------------
// C04: literal values

/// values of all literal tokens (strings and numbers) in order
pub fn literal_values(src: &str, syn: Syntax) -> Result<Vec<(String, String)>, String> {
    let toks = lex_ok(src, syn)?;
    let mut out = Vec::new();
    for t in &toks {
        match t.kind {
            Kind::Quoted(_) | Kind::LongStr(_) => {
                let v = lex::string_value(t, src);
                let mut s = String::from("s:");
                for b in v {
                    s.push_str(&format!("{b:02x}"));
                }
                out.push((s, t.text(src).to_string()));
            }
            Kind::Number => out.push((format!("n:{}", lex::number_value(t.text(src), syn)), t.text(src).to_string())),
            _ => {}
        }
    }
    Ok(out)
}

pub fn c04(case: &Case, out: &Outcome) -> Verdict {
    let syn = case.cfg.syntax;
    if case.cfg.sort_requires {
        return Verdict::Skip("sort_requires on");
    }
    match out {
        Outcome::ParseError(_) => Verdict::Skip("input does not parse"),
        Outcome::Ok(q) => {
            if !parser_lossless(&case.source, syn) {
                return Verdict::Skip(LOSSY);
            }
            let a = match literal_values(&case.source, syn) {
                Ok(a) => a,
                Err(_) => return Verdict::Skip("checker lexer rejects input"),
            };
            let b = match literal_values(q, syn) {
                Ok(b) => b,
                Err(e) => return Verdict::Fail(format!("output does not lex: {e}")),
            };
            if a.len() != b.len() {
                return Verdict::Fail(format!("{} literals in the input, {} in the output", a.len(), b.len()));
            }
            // a malformed `\x` / `\u` escape has no value in the dialects that know these escapes (and another one in
            // Lua 5.1): such input is not judged
            if let Ok(toks) = lex_ok(&case.source, syn) {
                if toks.iter().any(|t| matches!(t.kind, Kind::Quoted(_)) && lex::has_malformed_escape(&case.source.as_bytes()[t.start + 1..t.end - 1])) {
                    return Verdict::Skip("a quoted string holds a malformed \\x or \\u escape");
                }
            }
            let mut respelled = false;
            for (i, (x, y)) in a.iter().zip(b.iter()).enumerate() {
                if x.0 != y.0 {
                    return Verdict::Fail(format!("literal {i}: `{}` became `{}` (value {} -> {})", short(&x.1, 60), short(&y.1, 60), short(&x.0, 60), short(&y.0, 60)));
                }
                if x.1 != y.1 {
                    respelled = true;
                }
            }
            Verdict::Pass { nontrivial: respelled }
        }
        _ => Verdict::Skip("no output"),
    }
}

// ------------------------------------------------------------------------------------------
// C08: ignore directives

/// number of T elements contributed by the tokens that start before `offset`
fn t_count_before(src: &str, toks: &[Tok], offset: usize) -> usize {
    let mut n = 0;
    for t in toks {
        if t.start >= offset {
            break;
        }
        if t.kind.is_trivia() {
            continue;
        }
        match (t.kind, t.text(src)) {
            (Kind::Sym, "(") | (Kind::Sym, ")") | (Kind::Sym, ",") | (Kind::Sym, ";") => {}
            (Kind::Sym, ">>") => n += 2,
            _ => n += 1,
        }
    }
    n
}

fn neutralise_directives(src: &str) -> String {
    src.replace("stylua: ignore", "stylua- ignore")
}

/// spans (first token .. last token) of the top-level statements of a program
fn top_level_statements(src: &str, syn: Syntax) -> Option<Vec<(usize, usize)>> {
    let ast = ast_json(src, syn)?;
    let mut out = Vec::new();
    for pair in ast.get("stmts")?.as_array()? {
        out.push(crate::model::span(&pair[0])?);
    }
    if let Some(ls) = ast.get("last_stmt").filter(|l| !l.is_null()) {
        out.push(crate::model::span(&ls[0])?);
    }
    Some(out)
}

pub fn c08(case: &Case, out: &Outcome) -> Verdict {
    if !parser_lossless(&case.source, case.cfg.syntax) {
        return Verdict::Skip(LOSSY);
    }
    let syn = case.cfg.syntax;
    let q = match out {
        Outcome::Ok(q) => q,
        Outcome::ParseError(_) => return Verdict::Skip("input does not parse"),
        _ => return Verdict::Skip("no output"),
    };
    if !has_ignore_directive(&case.source) {
        return Verdict::Skip("no ignore directive");
    }
    let Some(ast) = ast_json(&case.source, syn) else { return Verdict::Skip("input does not parse") };
    let mut ignored = Vec::new();
    crate::model::ignored_nodes(&ast, &mut ignored);
    if ignored.is_empty() {
        return Verdict::Skip("directive present but no node is ignored");
    }
    ignored.sort_by_key(|n| n.start);
    let ti = match lex_ok(&case.source, syn) {
        Ok(t) => t,
        Err(_) => return Verdict::Skip("checker lexer rejects input"),
    };
    let to = match lex_ok(q, syn) {
        Ok(t) => t,
        Err(e) => return Verdict::Fail(format!("output does not lex: {e}")),
    };
    // first half: every ignored node occurs verbatim, in order, at the corresponding token position
    let mut from = 0usize;
    for n in &ignored {
        let text = &case.source[n.start..n.end];
        let want = t_count_before(&case.source, &ti, n.start);
        let mut found = None;
        let mut search = from;
        while let Some(p) = q[search..].find(text) {
            let at = search + p;
            if t_count_before(q, &to, at) == want {
                found = Some(at);
                break;
            }
            search = at + 1;
            while !q.is_char_boundary(search) {
                search += 1;
            }
        }
        match found {
            Some(at) => from = at + text.len(),
            None => {
                return Verdict::Fail(format!("ignored {} is not reproduced verbatim: `{}`", n.kind, short(text, 120)));
            }
        }
    }
    // second half: statements away from ignored nodes are formatted exactly as without the directives
    // (not with sort_requires on: a directive also decides whether a group of requires is sorted, so the run without
    // directives orders statements differently; the first half still holds there)
    // (nor with a range: an ignored node stays verbatim whether the range covers it, cuts through it or misses it —
    // the directive is looked at before the range — but its neighbours are formatted or kept by C09's rules)
    if case.cfg.sort_requires || case.range.is_some() {
        return Verdict::Pass { nontrivial: true };
    }
    let neutral = Case { source: neutralise_directives(&case.source), ..case.clone() };
    let mut nontrivial = false;
    if let Outcome::Ok(qn) = run_format(&neutral).0 {
        for n in &ignored {
            if !qn.contains(&case.source[n.start..n.end]) {
                nontrivial = true;
            }
        }
        let tops_in = top_level_statements(&case.source, syn);
        let tops_a = top_level_statements(q, syn);
        let tops_b = top_level_statements(&qn, syn);
        if let (Some(ti_), Some(ta), Some(tb)) = (tops_in, tops_a, tops_b) {
            if ti_.len() == ta.len() && ta.len() == tb.len() {
                let touches = |i: usize| -> bool {
                    let (s, e) = ti_[i];
                    ignored.iter().any(|n| n.start < e && n.end > s)
                };
                for i in 0..ti_.len() {
                    let prev_ok = i == 0 || !touches(i - 1);
                    let next_ok = i + 1 >= ti_.len() || !touches(i + 1);
                    if !touches(i) {
                        let a = &q[ta[i].0..ta[i].1];
                        let b = qn[tb[i].0..tb[i].1].replace("stylua- ignore", "stylua: ignore");
                        // next to an ignored node the surrounding blank lines and comments belong to the neighbour:
                        // compare the statement's own lines there
                        let differs = if prev_ok && next_ok { a != b } else { a.trim() != b.trim() };
                        if differs {
                            return Verdict::Fail(format!("statement {} is not ignored but is formatted differently than without the directives: `{}` vs `{}`", i, short(a, 80), short(&b, 80)));
                        }
                    }
                }
            }
        }
    }
    Verdict::Pass { nontrivial }
}

// ------------------------------------------------------------------------------------------
// C09: range formatting

#[derive(Clone, Copy, PartialEq, Eq, Debug)]
enum InRange {
    Inside,
    Outside,
    /// the statement ends exactly one byte after the end bound: the README's inclusive wording and the
    /// implementation's comparison disagree, so no claim is made either way
    Boundary,
}

/// `tail_start`: start offset of the sixth-last code token of the statement
fn classify(st: &crate::model::StmtSpan, tail_start: usize, s: Option<usize>, e: Option<usize>) -> InRange {
    if let Some(s) = s {
        if st.start < s {
            return InRange::Outside;
        }
    }
    if let Some(e) = e {
        if st.end == e + 1 {
            return InRange::Boundary;
        }
        if st.end > e + 1 {
            // The implementation compares full_moon's `end_position()` of the statement node, which for some node
            // kinds (index brackets, typed locals without value, parenthesised types) is the end of an earlier
            // token than the textual last one (known finding KF-C09-node-end-position): a cut inside the last six
            // tokens of a statement is therefore left unclaimed.
            if e + 1 > tail_start {
                return InRange::Boundary;
            }
            return InRange::Outside;
        }
    }
    InRange::Inside
}

/// (start, end) offsets in `text` of the tokens carrying T indices a..b (b exclusive)
fn t_slice(text: &str, toks: &[Tok], a: usize, b: usize) -> Option<(usize, usize)> {
    let mut idx = 0usize;
    let mut start = None;
    let mut end = None;
    for t in toks {
        if t.kind.is_trivia() {
            continue;
        }
        let n = match (t.kind, t.text(text)) {
            (Kind::Sym, "(") | (Kind::Sym, ")") | (Kind::Sym, ",") | (Kind::Sym, ";") => 0,
            (Kind::Sym, ">>") => 2,
            _ => 1,
        };
        if n == 0 {
            continue;
        }
        if idx >= a && start.is_none() {
            start = Some(t.start);
        }
        if idx < b {
            end = Some(t.end);
        }
        idx += n;
        if idx >= b {
            break;
        }
    }
    match (start, end) {
        (Some(s), Some(e)) if s <= e => Some((s, e)),
        _ => None,
    }
}

pub fn c09(case: &Case, out: &Outcome) -> Verdict {
    if !parser_lossless(&case.source, case.cfg.syntax) {
        return Verdict::Skip(LOSSY);
    }
    let syn = case.cfg.syntax;
    let Some((rs, re)) = case.range else { return Verdict::Skip("no range") };
    let q = match out {
        Outcome::Ok(q) => q,
        Outcome::ParseError(_) => return Verdict::Skip("input does not parse"),
        _ => return Verdict::Skip("no output"),
    };
    let src = &case.source;
    let Some(ast) = ast_json(src, syn) else { return Verdict::Skip("input does not parse") };
    let mut stmts = Vec::new();
    crate::model::all_statements(&ast, 0, &mut stmts);
    let ti = match lex_ok(src, syn) {
        Ok(t) => t,
        Err(_) => return Verdict::Skip("checker lexer rejects input"),
    };
    let to = match lex_ok(q, syn) {
        Ok(t) => t,
        Err(e) => return Verdict::Fail(format!("output does not lex: {e}")),
    };
    let code_all: Vec<&Tok> = ti.iter().filter(|t| !t.kind.is_trivia()).collect();
    let classes: Vec<InRange> = stmts
        .iter()
        .map(|s| {
            let own: Vec<&&Tok> = code_all.iter().filter(|t| t.start >= s.start && t.end <= s.end).collect();
            let tail_start = if own.len() > 6 { own[own.len() - 6].start } else { s.start };
            classify(s, tail_start, rs, re)
        })
        .collect();
    let touched: Vec<&crate::model::StmtSpan> = stmts.iter().zip(classes.iter()).filter(|(_, c)| **c != InRange::Outside).map(|(s, _)| s).collect();
    let code: Vec<&Tok> = ti.iter().filter(|t| !t.kind.is_trivia()).collect();
    // (0) a range that ends before the end of the text leaves the end-of-file token outside it: the blank lines and
    // comments that belong to that token (everything behind the line of the last code token) stay byte for byte
    if let Some(e) = re {
        if e + 2 < src.len() && rs.map_or(true, |s| s <= src.len()) {
            let last_end = code.last().map_or(0, |t| t.end);
            let mut eof_start = None;
            for t in ti.iter().filter(|t| t.start >= last_end) {
                if t.kind == crate::lex::Kind::Ws {
                    if let Some(p) = t.text(src).find('\n') {
                        eof_start = Some(t.start + p + 1);
                        break;
                    }
                }
            }
            if let Some(at) = eof_start {
                if code.is_empty() {
                    // no code at all: the whole text is the end-of-file token's
                } else if !q.ends_with(&src[at..]) {
                    return Verdict::Fail(format!(
                        "the range ends before the end of the file but the text behind the last code line changed: `{}`",
                        short(&src[at..].replace('\n', "⏎"), 80)
                    ));
                }
            }
        }
    }
    // (4) nothing inside: the text up to the last token is unchanged
    if touched.is_empty() {
        let last_end = code.last().map_or(0, |t| t.end);
        if !q.starts_with(&src[..last_end]) {
            let (a, b) = first_line_diff(&src[..last_end], q);
            return Verdict::Fail(format!("no statement lies inside the range but the text changed: `{}` became `{}`", short(&a, 80), short(&b, 80)));
        }
        return Verdict::Pass { nontrivial: false };
    }
    // (1) bytes before the first and after the last affected statement
    let first = touched.iter().map(|s| s.start).min().unwrap();
    let last = touched.iter().map(|s| s.end_semi).max().unwrap();
    let prev_end = code.iter().filter(|t| t.end <= first).map(|t| t.end).max().unwrap_or(0);
    if !q.starts_with(&src[..prev_end]) {
        let (a, b) = first_line_diff(&src[..prev_end], q);
        return Verdict::Fail(format!("text before the first statement in the range changed: `{}` became `{}`", short(&a, 80), short(&b, 80)));
    }
    if let Some(next_start) = code.iter().filter(|t| t.start >= last).map(|t| t.start).min() {
        if !q.ends_with(&src[next_start..]) {
            // the EOF trivia may be formatted when the EOF token lies inside the range: compare up to the last token
            let last_tok_end = code.last().map_or(src.len(), |t| t.end);
            let tail = &src[next_start..last_tok_end];
            if !q.contains(tail) {
                return Verdict::Fail(format!("text after the last statement in the range changed: `{}` is not in the output", short(tail, 100)));
            }
        }
    }
    // (2) every statement outside the range keeps its text (piecewise around affected descendants)
    let mut from = 0usize;
    for (st, cl) in stmts.iter().zip(classes.iter()) {
        if *cl != InRange::Outside {
            continue;
        }
        // statements nested in an affected statement are formatted with it
        if touched.iter().any(|t| t.start <= st.start && st.end_semi <= t.end_semi) {
            continue;
        }
        // cut out affected descendants
        let mut holes: Vec<(usize, usize)> = touched.iter().filter(|t| st.start <= t.start && t.end_semi <= st.end_semi).map(|t| (t.start, t.end_semi)).collect();
        holes.sort();
        let mut pieces: Vec<(usize, usize)> = Vec::new();
        let mut cur = st.start;
        for (hs, he) in holes {
            if hs > cur {
                pieces.push((cur, hs));
            }
            cur = cur.max(he);
        }
        if cur < st.end_semi {
            pieces.push((cur, st.end_semi));
        }
        let mut local_from = from.min(q.len());
        for (ps, pe) in pieces {
            // pieces are delimited by code tokens: the trivia next to an affected statement belongs to it
            let toks_in: Vec<&&Tok> = code.iter().filter(|t| t.start >= ps && t.end <= pe).collect();
            let (Some(ft), Some(lt)) = (toks_in.first(), toks_in.last()) else { continue };
            let piece = &src[ft.start..lt.end];
            let piece_start = ft.start;
            let want = t_count_before(src, &ti, piece_start);
            let mut found = None;
            let mut search = local_from;
            while let Some(p) = q[search..].find(piece) {
                let at = search + p;
                if t_count_before(q, &to, at) == want {
                    found = Some(at);
                    break;
                }
                search = at + 1;
                while search < q.len() && !q.is_char_boundary(search) {
                    search += 1;
                }
                if search >= q.len() {
                    break;
                }
            }
            match found {
                Some(at) => local_from = at + piece.len(),
                None => return Verdict::Fail(format!("statement outside the range does not keep its text: `{}`", short(piece, 120))),
            }
        }
        // nested outside statements repeat parts of this text: do not advance the global cursor past this statement's start
        let _ = &mut from;
    }
    // (3) statements inside the range come out as in a whole-file run
    let full_case = Case { range: None, ..case.clone() };
    let mut compared = false;
    if case.cfg.sort_requires {
        // sorted requires move inside the range: the whole-file comparison is C12's subject
    } else if let Outcome::Ok(full) = run_format(&full_case).0 {
        // only when the width leaves a margin of six indentation levels over the longest line, so that a different
        // indentation of the enclosing statements cannot change a wrapping decision
        let longest = full.lines().map(|l| l.chars().map(|c| if c == '\t' { case.cfg.indent_width } else { 1 }).sum::<usize>()).max().unwrap_or(0);
        let roomy = case.cfg.column_width >= longest.saturating_add(6 * case.cfg.indent_width);
        if let (Ok(tf), true) = (lex_ok(&full, syn), roomy) {
            let t_in = lex::t_sequence(src, &ti, syn);
            if lex::t_sequence(q, &to, syn) == t_in && lex::t_sequence(&full, &tf, syn) == t_in {
                for (st, cl) in stmts.iter().zip(classes.iter()) {
                    if *cl != InRange::Inside || !st.direct {
                        continue;
                    }
                    // outermost inside statements only
                    if stmts.iter().zip(classes.iter()).any(|(o, oc)| *oc == InRange::Inside && (o.start < st.start || o.end > st.end) && o.start <= st.start && st.end <= o.end) {
                        continue;
                    }
                    let a = t_count_before(src, &ti, st.start);
                    let b = t_count_before(src, &ti, st.end);
                    if b <= a {
                        continue;
                    }
                    if let (Some((s1, e1)), Some((s2, e2))) = (t_slice(q, &to, a, b), t_slice(&full, &tf, a, b)) {
                        compared = true;
                        // the enclosing (unformatted) statements may sit at another indentation than in the whole-file
                        // run (collapsed guards, hanging conditions): compare modulo the indentation of each line
                        let strip = |t: &str| t.lines().map(|l| l.trim_start()).collect::<Vec<_>>().join("\n");
                        if strip(&q[s1..e1]) != strip(&full[s2..e2]) {
                            return Verdict::Fail(format!(
                                "statement inside the range differs from whole-file formatting: `{}` vs `{}`",
                                short(&q[s1..e1], 100),
                                short(&full[s2..e2], 100)
                            ));
                        }
                    }
                }
            }
        }
    }
    // (3b) indentation: a statement inside the range whose enclosing statements all lie outside it is formatted at the
    // indentation of its block depth - one level per enclosing block, whether the block is a statement's body or the
    // body of a function inside an expression (nothing around it is laid out, so no hanging indent applies)
    // (programs with ignore directives are left out: an ignored statement inside the range keeps its own indentation)
    if !case.cfg.sort_requires && !has_ignore_directive(src) && lex::t_sequence(q, &to, syn) == lex::t_sequence(src, &ti, syn) {
        for (st, cl) in stmts.iter().zip(classes.iter()) {
            if *cl != InRange::Inside {
                continue;
            }
            // enclosing statements (any class but Outside) lay this one out themselves
            if stmts.iter().zip(classes.iter()).any(|(o, oc)| *oc != InRange::Outside && (o.start < st.start || o.end > st.end) && o.start <= st.start && st.end <= o.end) {
                continue;
            }
            let a = t_count_before(src, &ti, st.start);
            let b = t_count_before(src, &ti, st.end);
            if b <= a {
                continue;
            }
            if let Some((s1, e1)) = t_slice(q, &to, a, b) {
                let line_start = q[..s1].rfind('\n').map_or(0, |p| p + 1);
                let lead = &q[line_start..s1];
                // blocks inside the expressions of some statement kinds (loop bounds, say) are not visited at all: a
                // statement that kept its text and its indentation was simply not reached, which the property allows
                let src_line_start = src[..st.start].rfind('\n').map_or(0, |p| p + 1);
                let _ = e1;
                let first_line = |t: &str, at: usize| -> String { t[at..].lines().next().unwrap_or("").trim_end().to_string() };
                if lead == &src[src_line_start..st.start] && first_line(q, s1) == first_line(src, st.start) {
                    continue;
                }
                // a statement that begins with a parenthesis: the semantic token sequence starts behind it
                if src[st.start..].starts_with('(') {
                    continue;
                }
                if line_start == 0 && st.depth > 0 {
                    continue;
                }
                if !lead.chars().all(|c| c == ' ' || c == '\t') {
                    continue;
                }
                // leading comments of the statement sit between the line start and the first token only when they are
                // block comments on the same line: those lines were skipped above (not blank)
                let want = match case.cfg.indent_type {
                    crate::cfg::Indent::Tabs => "\t".repeat(st.depth),
                    crate::cfg::Indent::Spaces => " ".repeat(st.depth * case.cfg.indent_width),
                };
                if lead != want {
                    return Verdict::Fail(format!(
                        "statement inside the range at block depth {} is indented by {:?}, expected {:?}: `{}`",
                        st.depth,
                        lead,
                        want,
                        short(&q[s1..], 60)
                    ));
                }
            }
        }
    }
    let any_outside = classes.iter().any(|c| *c == InRange::Outside);
    Verdict::Pass { nontrivial: (compared || case.cfg.sort_requires) && any_outside && q != src }
}

// ------------------------------------------------------------------------------------------
// C12: require sorting

pub fn c12(case: &Case, out: &Outcome) -> Verdict {
    if !parser_lossless(&case.source, case.cfg.syntax) {
        return Verdict::Skip(LOSSY);
    }
    let syn = case.cfg.syntax;
    let q = match out {
        Outcome::Ok(q) => q,
        Outcome::ParseError(_) => return Verdict::Skip("input does not parse"),
        _ => return Verdict::Skip("no output"),
    };
    let src = &case.source;
    let Some(ast) = ast_json(src, syn) else { return Verdict::Skip("input does not parse") };
    let tops = crate::model::top_statements(&ast);
    let range = case.range;
    let untouchable = |i: usize| -> bool {
        if tops[i].ignored {
            return true;
        }
        if let Some((s, e)) = range {
            let (a, b) = tops[i].span;
            if s.map_or(false, |s| a < s) || e.map_or(false, |e| b > e) {
                return true;
            }
        }
        false
    };
    let order: Vec<usize> = if case.cfg.sort_requires { crate::model::expected_order(&tops, &untouchable) } else { (0..tops.len()).collect() };
    let ni = match guarded(|| norm::normal_form(src, syn)) {
        Ok(Ok(n)) => n,
        _ => return Verdict::Skip("input does not parse"),
    };
    let no = match guarded(|| norm::normal_form(q, syn)) {
        Ok(Ok(n)) => n,
        Ok(Err(e)) => return Verdict::Fail(format!("output does not parse: {}", short(&e, 160))),
        Err(p) => return Verdict::Fail(format!("output does not parse: parser panicked {p}")),
    };
    let empty = Vec::new();
    let si = ni.get("stmts").and_then(|s| s.as_array()).unwrap_or(&empty);
    let so = no.get("stmts").and_then(|s| s.as_array()).unwrap_or(&empty);
    if si.len() != so.len() || si.len() != tops.len() {
        return Verdict::Fail(format!("{} top-level statements in the input, {} in the output", si.len(), so.len()));
    }
    for (pos, &from) in order.iter().enumerate() {
        if si[from] != so[pos] {
            let describe = |v: &serde_json::Value| short(&v.to_string(), 90);
            return Verdict::Fail(format!(
                "top-level statement {} of the output should be input statement {} ({}) but is {}",
                pos,
                from,
                describe(&si[from]),
                describe(&so[pos])
            ));
        }
    }
    if ni.get("last_stmt") != no.get("last_stmt") {
        return Verdict::Fail("last statement changed".to_string());
    }
    // every comment stays in the file
    let ti = match lex_ok(src, syn) {
        Ok(t) => t,
        Err(_) => return Verdict::Skip("checker lexer rejects input"),
    };
    let to = match lex_ok(q, syn) {
        Ok(t) => t,
        Err(e) => return Verdict::Fail(format!("output does not lex: {e}")),
    };
    let mut ci: Vec<String> = lex::comments(src, &ti).into_iter().map(|c| c.text).collect();
    let mut co: Vec<String> = lex::comments(q, &to).into_iter().map(|c| c.text).collect();
    ci.sort();
    co.sort();
    if ci != co {
        let lost = ci.iter().find(|c| !co.contains(c)).cloned().unwrap_or_default();
        return Verdict::Fail(format!("comments changed ({} in, {} out); e.g. `{}`", ci.len(), co.len(), short(&lost, 60)));
    }
    let moved = order.iter().enumerate().any(|(i, &f)| i != f);
    let groups = tops.iter().filter(|t| t.kind.is_some()).count();
    Verdict::Pass { nontrivial: groups >= 2 && (moved || !case.cfg.sort_requires) }
}
