//! Executable oracles for the library-level properties.

use crate::engine::{guarded, run_format, Case, Outcome};
use crate::lex::{self, Kind, Syntax, Tok};
use crate::norm;

#[derive(Clone, Debug, PartialEq, Eq)]
pub enum Verdict {
    /// the property held on this case; `nontrivial` by the property's rule
    Pass { nontrivial: bool },
    Fail(String),
    /// the case is outside the property's quantifier (e.g. input does not parse)
    Skip(&'static str),
}

impl Verdict {
    pub fn is_fail(&self) -> bool {
        matches!(self, Verdict::Fail(_))
    }
}

fn short(s: &str, n: usize) -> String {
    let mut t: String = s.chars().take(n).collect();
    if s.chars().count() > n {
        t.push('…');
    }
    t
}

/// Parse with the trusted parser, treating a panic of the parser as "does not parse"
pub fn parses(src: &str, syn: Syntax) -> Result<(), String> {
    match guarded(|| norm::parse(src, syn).map(|_| ())) {
        Ok(r) => r,
        Err(p) => Err(format!("parser panicked: {p}")),
    }
}

fn lex_ok(src: &str, syn: Syntax) -> Result<Vec<Tok>, String> {
    lex::lex(src, syn).map_err(|e| format!("checker lexer: {} at byte {}", e.msg, e.at))
}

/// number of non-trivia tokens (cheap size measure)
pub fn code_tokens(src: &str, syn: Syntax) -> usize {
    lex::lex(src, syn).map(|t| t.iter().filter(|k| !k.kind.is_trivia()).count()).unwrap_or(0)
}

// ------------------------------------------------------------------------------------------
// C01

pub fn c01(case: &Case, out: &Outcome) -> Verdict {
    let syn = case.cfg.syntax;
    match out {
        Outcome::ParseError(_) => Verdict::Skip("input does not parse"),
        Outcome::Ok(q) => {
            if let Err(e) = parses(q, syn) {
                return Verdict::Fail(format!("output does not parse: {}", short(&e, 200)));
            }
            match lex_ok(q, syn) {
                Err(e) => Verdict::Fail(format!("output does not lex: {e}")),
                Ok(_) => Verdict::Pass { nontrivial: *q != case.source && code_tokens(&case.source, syn) >= 6 },
            }
        }
        // a crash / verification error is C07's business, not a statement about the output
        _ => Verdict::Skip("no output"),
    }
}

// ------------------------------------------------------------------------------------------
// C02

fn t_diff(a: &[String], b: &[String]) -> Option<String> {
    if a == b {
        return None;
    }
    let i = a.iter().zip(b.iter()).position(|(x, y)| x != y).unwrap_or(a.len().min(b.len()));
    let ctx = |v: &[String]| v[i.saturating_sub(2)..(i + 3).min(v.len())].join(" ");
    Some(format!("token {i}: input `{}` vs output `{}`", short(&ctx(a), 80), short(&ctx(b), 80)))
}

pub fn has_c02_interest(src: &str, toks: &[Tok]) -> bool {
    // redundant parenthesis / semicolon / escape or single quote / leading-dot number / call sugar / `;` in table
    let nt: Vec<&Tok> = toks.iter().filter(|t| !t.kind.is_trivia()).collect();
    for (i, t) in nt.iter().enumerate() {
        let text = t.text(src);
        match t.kind {
            Kind::Sym if text == ";" => return true,
            Kind::Sym if text == "(" => {
                // parenthesis that is not a call / definition parenthesis
                let prev = if i > 0 { Some(nt[i - 1]) } else { None };
                let is_call = prev.map_or(false, |p| matches!(p.kind, Kind::Name | Kind::Quoted(_) | Kind::LongStr(_)) || matches!(p.text(src), ")" | "]" | "}" | "function"));
                let prev_kw = prev.map_or(false, |p| p.kind == Kind::Name && matches!(p.text(src), "and" | "or" | "not" | "return" | "if" | "while" | "until" | "in" | "elseif" | "then" | "else" | "do"));
                if !is_call || prev_kw {
                    return true;
                }
            }
            Kind::Quoted(q) => {
                if q == b'\'' || text.contains('\\') {
                    return true;
                }
                if i > 0 && matches!(nt[i - 1].kind, Kind::Name) {
                    return true;
                }
            }
            Kind::Number if text.starts_with('.') => return true,
            _ => {}
        }
    }
    false
}

pub fn c02(case: &Case, out: &Outcome) -> Verdict {
    let syn = case.cfg.syntax;
    if case.cfg.sort_requires {
        return Verdict::Skip("sort_requires on");
    }
    match out {
        Outcome::ParseError(_) => Verdict::Skip("input does not parse"),
        Outcome::Ok(q) => {
            let ti = match lex_ok(&case.source, syn) {
                Ok(t) => t,
                Err(_) => return Verdict::Skip("checker lexer rejects input"),
            };
            let to = match lex_ok(q, syn) {
                Ok(t) => t,
                Err(e) => return Verdict::Fail(format!("output does not lex: {e}")),
            };
            let a = lex::t_sequence(&case.source, &ti, syn);
            let b = lex::t_sequence(q, &to, syn);
            if let Some(d) = t_diff(&a, &b) {
                return Verdict::Fail(format!("token sequence T differs at {d}"));
            }
            let ni = match guarded(|| norm::normal_form(&case.source, syn)) {
                Ok(Ok(n)) => n,
                _ => return Verdict::Skip("input does not parse"),
            };
            let no = match guarded(|| norm::normal_form(q, syn)) {
                Ok(Ok(n)) => n,
                Ok(Err(e)) => return Verdict::Fail(format!("output does not parse: {}", short(&e, 160))),
                Err(p) => return Verdict::Fail(format!("output does not parse: parser panicked {p}")),
            };
            if ni != no {
                let d = norm::first_difference(&ni, &no).unwrap_or_default();
                return Verdict::Fail(format!("normal form N differs at {}", short(&d, 300)));
            }
            Verdict::Pass { nontrivial: *q != case.source && has_c02_interest(&case.source, &ti) }
        }
        _ => Verdict::Skip("no output"),
    }
}

// ------------------------------------------------------------------------------------------
// C03

pub fn c03(case: &Case, out: &Outcome) -> Verdict {
    let syn = case.cfg.syntax;
    match out {
        Outcome::ParseError(_) => Verdict::Skip("input does not parse"),
        Outcome::Ok(q) => {
            let ti = match lex_ok(&case.source, syn) {
                Ok(t) => t,
                Err(_) => return Verdict::Skip("checker lexer rejects input"),
            };
            let to = match lex_ok(q, syn) {
                Ok(t) => t,
                Err(e) => return Verdict::Fail(format!("output does not lex: {e}")),
            };
            let mut ci: Vec<String> = lex::comments(&case.source, &ti).into_iter().map(|c| c.text).collect();
            let mut co: Vec<String> = lex::comments(q, &to).into_iter().map(|c| c.text).collect();
            let n_comments = ci.len();
            ci.sort();
            co.sort();
            if ci != co {
                // first comment that is missing or extra
                let mut i = 0;
                let mut j = 0;
                let mut msg = String::new();
                while i < ci.len() || j < co.len() {
                    if i < ci.len() && j < co.len() && ci[i] == co[j] {
                        i += 1;
                        j += 1;
                    } else if j >= co.len() || (i < ci.len() && ci[i] < co[j]) {
                        msg = format!("comment lost: `{}`", short(&ci[i], 80));
                        break;
                    } else {
                        msg = format!("comment created or altered: `{}`", short(&co[j], 80));
                        break;
                    }
                }
                return Verdict::Fail(format!("{msg} ({} comments in, {} out)", ci.len(), co.len()));
            }
            if !case.cfg.sort_requires {
                let a = lex::t_sequence(&case.source, &ti, syn);
                let b = lex::t_sequence(q, &to, syn);
                if let Some(d) = t_diff(&a, &b) {
                    return Verdict::Fail(format!("code tokens changed (code inside a comment?) at {d}"));
                }
            }
            Verdict::Pass { nontrivial: n_comments >= 1 && *q != case.source }
        }
        _ => Verdict::Skip("no output"),
    }
}

// ------------------------------------------------------------------------------------------
// C06

pub fn c06(case: &Case, out: &Outcome) -> Verdict {
    if case.range.is_some() {
        return Verdict::Skip("range given");
    }
    match out {
        Outcome::ParseError(_) => Verdict::Skip("input does not parse"),
        Outcome::Ok(q) => {
            let second = Case { source: q.clone(), cfg: case.cfg, range: None, verify: false };
            match run_format(&second).0 {
                Outcome::Ok(q2) => {
                    if q2 == *q {
                        Verdict::Pass { nontrivial: *q != case.source && q.lines().count() >= 2 }
                    } else {
                        let (la, lb) = first_line_diff(q, &q2);
                        Verdict::Fail(format!("second pass differs: first pass line `{}` vs second pass `{}`", short(&la, 100), short(&lb, 100)))
                    }
                }
                // the first output does not parse: that is C01's violation, not an idempotence statement
                Outcome::ParseError(_) => Verdict::Skip("first output does not parse (C01)"),
                other => Verdict::Fail(format!("second pass did not return output: {other:?}")),
            }
        }
        _ => Verdict::Skip("no output"),
    }
}

pub fn first_line_diff(a: &str, b: &str) -> (String, String) {
    let mut ia = a.split('\n');
    let mut ib = b.split('\n');
    loop {
        match (ia.next(), ib.next()) {
            (Some(x), Some(y)) if x == y => continue,
            (x, y) => return (x.unwrap_or("<end>").to_string(), y.unwrap_or("<end>").to_string()),
        }
    }
}

// ------------------------------------------------------------------------------------------
// C07: totality

/// A panic inside full_moon's parser on text that the parser does not accept is a known finding in the
/// dependency (KF-C07-fullmoon-parser-panic); the same location on valid input is not excused.
pub fn known_panic(msg: &str) -> Option<&'static str> {
    if msg.contains("/full_moon-") && msg.contains("/src/ast/pars") {
        Some("KF-C07-fullmoon-parser-panic")
    } else {
        None
    }
}

/// work bound: formatter ticks allowed for an input of `len` bytes
pub fn tick_bound(len: usize) -> u64 {
    (len as u64 * 5_000).max(1_000_000)
}

pub fn c07(case: &Case, out: &Outcome, ticks: u64) -> Verdict {
    let syn = case.cfg.syntax;
    let input_parses = parses(&case.source, syn);
    match out {
        Outcome::Panic(msg) => Verdict::Fail(format!("panic: {msg}")),
        Outcome::Budget(n) => Verdict::Fail(format!("work bound exceeded: more than {n} formatter ticks for {} input bytes", case.source.len())),
        Outcome::Ok(_) => {
            if let Err(e) = &input_parses {
                if !e.starts_with("parser panicked") {
                    return Verdict::Fail(format!("success returned for text that does not parse: {}", short(e, 120)));
                }
            }
            if ticks > tick_bound(case.source.len()) {
                return Verdict::Fail(format!("work bound exceeded: {ticks} formatter ticks for {} input bytes", case.source.len()));
            }
            Verdict::Pass { nontrivial: true }
        }
        Outcome::ParseError(_) => {
            if input_parses.is_ok() {
                Verdict::Fail("parse error returned for text that parses".to_string())
            } else {
                Verdict::Pass { nontrivial: true }
            }
        }
        Outcome::VerifyError(e) => {
            // only possible in verify mode: the formatter reports that its own output is wrong; that is a
            // returned error, not a totality failure (C01/C02 judge the output itself)
            if case.verify {
                Verdict::Pass { nontrivial: true }
            } else {
                Verdict::Fail(format!("verification error without verify mode: {e}"))
            }
        }
    }
}

// ------------------------------------------------------------------------------------------
// C10: whitespace

pub fn has_ignore_directive(src: &str) -> bool {
    src.contains("stylua: ignore")
}

pub fn c10(case: &Case, out: &Outcome) -> Verdict {
    use crate::cfg::{Endings, Indent};
    let syn = case.cfg.syntax;
    if case.range.is_some() {
        return Verdict::Skip("range given");
    }
    if has_ignore_directive(&case.source) {
        return Verdict::Skip("ignore directive present");
    }
    let q = match out {
        Outcome::Ok(q) => q,
        Outcome::ParseError(_) => return Verdict::Skip("input does not parse"),
        _ => return Verdict::Skip("no output"),
    };
    let toks = match lex_ok(q, syn) {
        Ok(t) => t,
        Err(_) => return Verdict::Skip("output does not lex (C01)"),
    };
    let b = q.as_bytes();
    // mask: bytes inside string literals are content; bytes inside multi-line tokens are not line starts
    let mut in_string = vec![false; b.len()];
    let mut in_multiline = vec![false; b.len()];
    for t in &toks {
        match t.kind {
            Kind::Quoted(_) | Kind::LongStr(_) | Kind::Interp => {
                for i in t.start..t.end {
                    in_string[i] = true;
                    in_multiline[i] = true;
                }
            }
            Kind::BlockComment(_) => {
                for i in t.start..t.end {
                    in_multiline[i] = true;
                }
            }
            _ => {}
        }
    }
    let windows = case.cfg.line_endings == Endings::Windows;
    let line_of = |pos: usize| q[..pos].matches('\n').count() + 1;
    for i in 0..b.len() {
        if in_string[i] {
            continue;
        }
        if b[i] == b'\n' {
            let has_cr = i > 0 && b[i - 1] == b'\r' && !in_string[i - 1];
            if windows && !has_cr {
                return Verdict::Fail(format!("bare line feed at line {} under Windows line endings", line_of(i)));
            }
            if !windows && has_cr {
                return Verdict::Fail(format!("CRLF at line {} under Unix line endings", line_of(i)));
            }
        } else if b[i] == b'\r' {
            let followed = b.get(i + 1) == Some(&b'\n');
            if !followed || !windows {
                return Verdict::Fail(format!("stray carriage return at line {}", line_of(i)));
            }
            if i > 0 && b[i - 1] == b'\r' {
                return Verdict::Fail(format!("doubled carriage return at line {}", line_of(i)));
            }
        }
    }
    // indentation of every line that starts outside a multi-line token
    let mut start = 0;
    while start < b.len() {
        let end = b[start..].iter().position(|&c| c == b'\n').map(|p| start + p).unwrap_or(b.len());
        let starts_inside = start > 0 && in_multiline[start] && in_multiline[start - 1] && {
            // inside only if the same token covers start-1 and start: check that a token spans the newline
            toks.iter().any(|t| t.start < start && t.end > start && matches!(t.kind, Kind::Quoted(_) | Kind::LongStr(_) | Kind::Interp | Kind::BlockComment(_)))
        };
        if !starts_inside {
            let mut j = start;
            while j < end && (b[j] == b' ' || b[j] == b'\t') {
                j += 1;
            }
            let ws = &b[start..j];
            let blank_line = j == end || (j + 1 == end && b[j] == b'\r');
            if !blank_line {
                match case.cfg.indent_type {
                    Indent::Tabs => {
                        if ws.iter().any(|&c| c != b'\t') {
                            return Verdict::Fail(format!("indentation of line {} is not made of tabs only: {:?}", line_of(start), String::from_utf8_lossy(ws)));
                        }
                    }
                    Indent::Spaces => {
                        if ws.iter().any(|&c| c != b' ') {
                            return Verdict::Fail(format!("indentation of line {} contains a tab under Spaces", line_of(start)));
                        }
                        if ws.len() % case.cfg.indent_width != 0 {
                            return Verdict::Fail(format!("indentation of line {} is {} spaces, not a multiple of {}", line_of(start), ws.len(), case.cfg.indent_width));
                        }
                    }
                }
            } else if j > start && j == end {
                // whitespace-only line: leading whitespace rule applies too
            }
        }
        start = end + 1;
    }
    // end of file
    if !q.is_empty() {
        let ending: &str = if windows { "\r\n" } else { "\n" };
        if !q.ends_with(ending) {
            return Verdict::Fail("output does not end with the configured line ending".to_string());
        }
        let body = &q[..q.len() - ending.len()];
        if body.ends_with('\n') || body.ends_with('\r') {
            // allowed only if the final newline belongs to a string / comment token content
            let last = body.len() - 1;
            if !in_multiline[last] {
                return Verdict::Fail("output ends with more than one line ending".to_string());
            }
        }
    }
    let src = &case.source;
    let nontrivial = src.contains("\r") != windows || src.contains("\n ") || src.contains("\n\t") || !src.ends_with('\n') || src.ends_with("\n\n");
    Verdict::Pass { nontrivial: nontrivial && *q != case.source }
}

// ------------------------------------------------------------------------------------------
// C11: options

#[derive(Debug, Clone, PartialEq, Eq)]
pub struct CallSite {
    /// 'P' parentheses, 'S' string sugar, 'T' table sugar
    pub form: char,
    /// byte offset of `(` when form == 'P'
    pub paren_at: Option<usize>,
    /// for 'P' with exactly one argument: "String", "Table", "ParenString", "ParenTable" or ""
    pub single: &'static str,
    /// an index or method call follows
    pub obscure: bool,
}

fn tok_start(v: &serde_json::Value) -> Option<usize> {
    v.get("token")?.get("start_position")?.get("bytes")?.as_u64().map(|x| x as usize)
}

fn strip_parens_json(mut e: &serde_json::Value) -> (&serde_json::Value, bool) {
    let mut stripped = false;
    loop {
        match e.get("Parentheses") {
            Some(p) if p.get("contained").is_some() && p.get("expression").is_some() => {
                e = &p["expression"];
                stripped = true;
            }
            _ => return (e, stripped),
        }
    }
}

fn args_site(a: &serde_json::Value, obscure: bool) -> Option<CallSite> {
    if let Some(p) = a.get("Parentheses") {
        if let Some(arguments) = p.get("arguments") {
            let paren_at = p.get("parentheses").and_then(|c| c.get("tokens")).and_then(|t| t.get(0)).and_then(tok_start);
            let pairs = arguments.get("pairs").and_then(|x| x.as_array()).cloned().unwrap_or_default();
            let mut single = "";
            if pairs.len() == 1 {
                let e = if let Some(e) = pairs[0].get("End") { e } else { &pairs[0]["Punctuated"][0] };
                let (core, stripped) = strip_parens_json(e);
                single = match (core.get("String").is_some(), core.get("TableConstructor").is_some(), stripped) {
                    (true, _, false) => "String",
                    (_, true, false) => "Table",
                    (true, _, true) => "ParenString",
                    (_, true, true) => "ParenTable",
                    _ => "",
                };
            }
            return Some(CallSite { form: 'P', paren_at, single, obscure });
        }
    }
    if a.get("String").is_some() {
        return Some(CallSite { form: 'S', paren_at: None, single: "", obscure });
    }
    if a.get("TableConstructor").is_some() {
        return Some(CallSite { form: 'T', paren_at: None, single: "", obscure });
    }
    None
}

/// all call sites in source order of the tree walk, and the `(` offsets of function definitions
pub fn call_sites(ast: &serde_json::Value, calls: &mut Vec<CallSite>, defs: &mut Vec<usize>) {
    match ast {
        serde_json::Value::Array(a) => {
            for x in a {
                call_sites(x, calls, defs);
            }
        }
        serde_json::Value::Object(m) => {
            if let Some(sfx) = m.get("suffixes").and_then(|s| s.as_array()) {
                for (i, s) in sfx.iter().enumerate() {
                    let next = sfx.get(i + 1);
                    let obscure = next.map_or(false, |n| n.get("Index").is_some() || n.get("Call").map_or(false, |c| c.get("MethodCall").is_some()));
                    if let Some(c) = s.get("Call") {
                        let a = if let Some(a) = c.get("AnonymousCall") { Some(a) } else { c.get("MethodCall").and_then(|m| m.get("args")) };
                        if let Some(site) = a.and_then(|a| args_site(a, obscure)) {
                            calls.push(site);
                        }
                    }
                }
            }
            if let Some(pp) = m.get("parameters_parentheses") {
                if let Some(p) = pp.get("tokens").and_then(|t| t.get(0)).and_then(tok_start) {
                    defs.push(p);
                }
            }
            for (_, v) in m {
                call_sites(v, calls, defs);
            }
        }
        _ => {}
    }
}

fn ast_json(src: &str, syn: Syntax) -> Option<serde_json::Value> {
    match guarded(|| norm::parse(src, syn).ok().map(|a| serde_json::to_value(a.nodes()).ok())) {
        Ok(Some(Some(v))) => Some(v),
        _ => None,
    }
}

pub fn c11(case: &Case, out: &Outcome) -> Verdict {
    use crate::cfg::{CallParens, Quotes, SpaceAfter};
    let syn = case.cfg.syntax;
    if case.range.is_some() {
        return Verdict::Skip("range given");
    }
    if has_ignore_directive(&case.source) {
        return Verdict::Skip("ignore directive present");
    }
    let q = match out {
        Outcome::Ok(q) => q,
        Outcome::ParseError(_) => return Verdict::Skip("input does not parse"),
        _ => return Verdict::Skip("no output"),
    };
    let toks = match lex_ok(q, syn) {
        Ok(t) => t,
        Err(_) => return Verdict::Skip("output does not lex (C01)"),
    };
    let mut interesting = false;
    // quotes
    for t in &toks {
        if let Kind::Quoted(qc) = t.kind {
            let body = &q.as_bytes()[t.start + 1..t.end - 1];
            let s = body.iter().filter(|&&c| c == b'\'').count();
            let d = body.iter().filter(|&&c| c == b'"').count();
            let want: u8 = match case.cfg.quote_style {
                Quotes::ForceDouble => b'"',
                Quotes::ForceSingle => b'\'',
                Quotes::AutoPreferDouble => if d > s { b'\'' } else { b'"' },
                Quotes::AutoPreferSingle => if s > d { b'"' } else { b'\'' },
            };
            if s + d > 0 || qc != b'"' {
                interesting = true;
            }
            if qc != want {
                return Verdict::Fail(format!(
                    "string {} uses {} under {:?} ({} single and {} double quotes inside)",
                    short(t.text(q), 40),
                    qc as char,
                    case.cfg.quote_style,
                    s,
                    d
                ));
            }
        }
    }
    // call forms
    let Some(out_ast) = ast_json(q, syn) else { return Verdict::Skip("output does not parse (C01)") };
    let mut calls = Vec::new();
    let mut defs = Vec::new();
    call_sites(&out_ast, &mut calls, &mut defs);
    let Some(in_ast) = ast_json(&case.source, syn) else { return Verdict::Skip("input does not parse") };
    let mut in_calls = Vec::new();
    let mut in_defs = Vec::new();
    call_sites(&in_ast, &mut in_calls, &mut in_defs);
    // known finding D21: a single argument wrapped in redundant parentheses keeps the call parentheses
    if in_calls.iter().any(|c| c.single == "ParenString" || c.single == "ParenTable") && case.cfg.call_parentheses != CallParens::Always && case.cfg.call_parentheses != CallParens::Input {
        return Verdict::Skip("KF-C11-parenthesised-single-argument");
    }
    let omit_string = matches!(case.cfg.call_parentheses, CallParens::None | CallParens::NoSingleString);
    let omit_table = matches!(case.cfg.call_parentheses, CallParens::None | CallParens::NoSingleTable);
    for c in &calls {
        if c.form != 'P' {
            interesting = true;
        }
        match case.cfg.call_parentheses {
            CallParens::Always => {
                if c.form != 'P' {
                    return Verdict::Fail(format!("call without parentheses (form {}) under call_parentheses=Always", c.form));
                }
            }
            CallParens::Input => {}
            _ => {
                if c.form == 'P' && !c.obscure && ((c.single == "String" && omit_string) || (c.single == "Table" && omit_table)) {
                    return Verdict::Fail(format!("single {} argument keeps its call parentheses under {:?}", c.single, case.cfg.call_parentheses));
                }
            }
        }
    }
    if case.cfg.call_parentheses == CallParens::Input {
        let a: String = in_calls.iter().map(|c| c.form).collect();
        let b: String = calls.iter().map(|c| c.form).collect();
        if a != b {
            return Verdict::Fail(format!("call forms changed under call_parentheses=Input: {} -> {}", short(&a, 60), short(&b, 60)));
        }
    }
    if in_calls.iter().any(|c| c.form != 'P' || !c.single.is_empty()) {
        interesting = true;
    }
    // spaces
    let code: Vec<&Tok> = toks.iter().filter(|t| !t.kind.is_trivia()).collect();
    let check_space = |at: usize, want: bool, what: &str| -> Option<String> {
        let idx = code.iter().position(|t| t.start == at)?;
        if idx == 0 {
            return None;
        }
        let prev = code[idx - 1];
        let gap = &q[prev.end..at];
        if gap.contains('\n') || gap.contains("--") {
            return None;
        }
        // a generic parameter list sits between the name and `(`
        if prev.text(q) == ">" {
            return None;
        }
        let ok = if want { gap == " " } else { gap.is_empty() };
        if ok {
            None
        } else {
            Some(format!("{what}: {:?} between `{}` and `(` under space_after_function_names={:?}", gap, short(prev.text(q), 20), case.cfg.space_after))
        }
    };
    let want_call = matches!(case.cfg.space_after, SpaceAfter::Calls | SpaceAfter::Always);
    let want_def = matches!(case.cfg.space_after, SpaceAfter::Definitions | SpaceAfter::Always);
    for c in &calls {
        if let Some(at) = c.paren_at {
            if let Some(e) = check_space(at, want_call, "call") {
                return Verdict::Fail(e);
            }
        }
    }
    for d in &defs {
        if let Some(e) = check_space(*d, want_def, "definition") {
            return Verdict::Fail(e);
        }
    }
    if !calls.is_empty() || !defs.is_empty() {
        interesting = interesting || case.cfg.space_after != SpaceAfter::Never;
    }
    Verdict::Pass { nontrivial: interesting && *q != case.source }
}

// ------------------------------------------------------------------------------------------
// C04: literal values

/// values of all literal tokens (strings and numbers) in order
pub fn literal_values(src: &str, syn: Syntax) -> Result<Vec<(String, String)>, String> {
    let toks = lex_ok(src, syn)?;
    let mut out = Vec::new();
    for t in &toks {
        match t.kind {
            Kind::Quoted(_) | Kind::LongStr(_) => {
                let v = lex::string_value(t, src);
                let mut s = String::from("s:");
                for b in v {
                    s.push_str(&format!("{b:02x}"));
                }
                out.push((s, t.text(src).to_string()));
            }
            Kind::Number => out.push((format!("n:{}", lex::number_value(t.text(src), syn)), t.text(src).to_string())),
            _ => {}
        }
    }
    Ok(out)
}

pub fn c04(case: &Case, out: &Outcome) -> Verdict {
    let syn = case.cfg.syntax;
    if case.cfg.sort_requires {
        return Verdict::Skip("sort_requires on");
    }
    match out {
        Outcome::ParseError(_) => Verdict::Skip("input does not parse"),
        Outcome::Ok(q) => {
            let a = match literal_values(&case.source, syn) {
                Ok(a) => a,
                Err(_) => return Verdict::Skip("checker lexer rejects input"),
            };
            let b = match literal_values(q, syn) {
                Ok(b) => b,
                Err(e) => return Verdict::Fail(format!("output does not lex: {e}")),
            };
            if a.len() != b.len() {
                return Verdict::Fail(format!("{} literals in the input, {} in the output", a.len(), b.len()));
            }
            let mut respelled = false;
            for (i, (x, y)) in a.iter().zip(b.iter()).enumerate() {
                if x.0 != y.0 {
                    return Verdict::Fail(format!("literal {i}: `{}` became `{}` (value {} -> {})", short(&x.1, 60), short(&y.1, 60), short(&x.0, 60), short(&y.0, 60)));
                }
                if x.1 != y.1 {
                    respelled = true;
                }
            }
            Verdict::Pass { nontrivial: respelled }
        }
        _ => Verdict::Skip("no output"),
    }
}
