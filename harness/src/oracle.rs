//! Executable oracles for the library-level properties.

use crate::engine::{guarded, run_format, Case, Outcome};
use crate::lex::{self, Kind, Syntax, Tok};
use crate::norm;

#[derive(Clone, Debug, PartialEq, Eq)]
pub enum Verdict {
    /// the property held on this case; `nontrivial` by the property's rule
    Pass { nontrivial: bool },
    Fail(String),
    /// the case is outside the property's quantifier (e.g. input does not parse)
    Skip(&'static str),
}

impl Verdict {
    pub fn is_fail(&self) -> bool {
        matches!(self, Verdict::Fail(_))
    }
}

fn short(s: &str, n: usize) -> String {
    let mut t: String = s.chars().take(n).collect();
    if s.chars().count() > n {
        t.push('…');
    }
    t
}

/// Parse with the trusted parser, treating a panic of the parser as "does not parse"
pub fn parses(src: &str, syn: Syntax) -> Result<(), String> {
    match guarded(|| norm::parse(src, syn).map(|_| ())) {
        Ok(r) => r,
        Err(p) => Err(format!("parser panicked: {p}")),
    }
}

fn lex_ok(src: &str, syn: Syntax) -> Result<Vec<Tok>, String> {
    lex::lex(src, syn).map_err(|e| format!("checker lexer: {} at byte {}", e.msg, e.at))
}

/// number of non-trivia tokens (cheap size measure)
pub fn code_tokens(src: &str, syn: Syntax) -> usize {
    lex::lex(src, syn).map(|t| t.iter().filter(|k| !k.kind.is_trivia()).count()).unwrap_or(0)
}

// ------------------------------------------------------------------------------------------
// C01

pub fn c01(case: &Case, out: &Outcome) -> Verdict {
    let syn = case.cfg.syntax;
    match out {
        Outcome::ParseError(_) => Verdict::Skip("input does not parse"),
        Outcome::Ok(q) => {
            if let Err(e) = parses(q, syn) {
                return Verdict::Fail(format!("output does not parse: {}", short(&e, 200)));
            }
            match lex_ok(q, syn) {
                Err(e) => Verdict::Fail(format!("output does not lex: {e}")),
                Ok(_) => Verdict::Pass { nontrivial: *q != case.source && code_tokens(&case.source, syn) >= 6 },
            }
        }
        // a crash / verification error is C07's business, not a statement about the output
        _ => Verdict::Skip("no output"),
    }
}

// ------------------------------------------------------------------------------------------
// C02

fn t_diff(a: &[String], b: &[String]) -> Option<String> {
    if a == b {
        return None;
    }
    let i = a.iter().zip(b.iter()).position(|(x, y)| x != y).unwrap_or(a.len().min(b.len()));
    let ctx = |v: &[String]| v[i.saturating_sub(2)..(i + 3).min(v.len())].join(" ");
    Some(format!("token {i}: input `{}` vs output `{}`", short(&ctx(a), 80), short(&ctx(b), 80)))
}

pub fn has_c02_interest(src: &str, toks: &[Tok]) -> bool {
    // redundant parenthesis / semicolon / escape or single quote / leading-dot number / call sugar / `;` in table
    let nt: Vec<&Tok> = toks.iter().filter(|t| !t.kind.is_trivia()).collect();
    for (i, t) in nt.iter().enumerate() {
        let text = t.text(src);
        match t.kind {
            Kind::Sym if text == ";" => return true,
            Kind::Sym if text == "(" => {
                // parenthesis that is not a call / definition parenthesis
                let prev = if i > 0 { Some(nt[i - 1]) } else { None };
                let is_call = prev.map_or(false, |p| matches!(p.kind, Kind::Name | Kind::Quoted(_) | Kind::LongStr(_)) || matches!(p.text(src), ")" | "]" | "}" | "function"));
                let prev_kw = prev.map_or(false, |p| p.kind == Kind::Name && matches!(p.text(src), "and" | "or" | "not" | "return" | "if" | "while" | "until" | "in" | "elseif" | "then" | "else" | "do"));
                if !is_call || prev_kw {
                    return true;
                }
            }
            Kind::Quoted(q) => {
                if q == b'\'' || text.contains('\\') {
                    return true;
                }
                if i > 0 && matches!(nt[i - 1].kind, Kind::Name) {
                    return true;
                }
            }
            Kind::Number if text.starts_with('.') => return true,
            _ => {}
        }
    }
    false
}

pub fn c02(case: &Case, out: &Outcome) -> Verdict {
    let syn = case.cfg.syntax;
    if case.cfg.sort_requires {
        return Verdict::Skip("sort_requires on");
    }
    match out {
        Outcome::ParseError(_) => Verdict::Skip("input does not parse"),
        Outcome::Ok(q) => {
            let ti = match lex_ok(&case.source, syn) {
                Ok(t) => t,
                Err(_) => return Verdict::Skip("checker lexer rejects input"),
            };
            let to = match lex_ok(q, syn) {
                Ok(t) => t,
                Err(e) => return Verdict::Fail(format!("output does not lex: {e}")),
            };
            let a = lex::t_sequence(&case.source, &ti, syn);
            let b = lex::t_sequence(q, &to, syn);
            if let Some(d) = t_diff(&a, &b) {
                return Verdict::Fail(format!("token sequence T differs at {d}"));
            }
            let ni = match guarded(|| norm::normal_form(&case.source, syn)) {
                Ok(Ok(n)) => n,
                _ => return Verdict::Skip("input does not parse"),
            };
            let no = match guarded(|| norm::normal_form(q, syn)) {
                Ok(Ok(n)) => n,
                Ok(Err(e)) => return Verdict::Fail(format!("output does not parse: {}", short(&e, 160))),
                Err(p) => return Verdict::Fail(format!("output does not parse: parser panicked {p}")),
            };
            if ni != no {
                let d = norm::first_difference(&ni, &no).unwrap_or_default();
                return Verdict::Fail(format!("normal form N differs at {}", short(&d, 300)));
            }
            Verdict::Pass { nontrivial: *q != case.source && has_c02_interest(&case.source, &ti) }
        }
        _ => Verdict::Skip("no output"),
    }
}

// ------------------------------------------------------------------------------------------
// C03

pub fn c03(case: &Case, out: &Outcome) -> Verdict {
    let syn = case.cfg.syntax;
    match out {
        Outcome::ParseError(_) => Verdict::Skip("input does not parse"),
        Outcome::Ok(q) => {
            let ti = match lex_ok(&case.source, syn) {
                Ok(t) => t,
                Err(_) => return Verdict::Skip("checker lexer rejects input"),
            };
            let to = match lex_ok(q, syn) {
                Ok(t) => t,
                Err(e) => return Verdict::Fail(format!("output does not lex: {e}")),
            };
            let mut ci: Vec<String> = lex::comments(&case.source, &ti).into_iter().map(|c| c.text).collect();
            let mut co: Vec<String> = lex::comments(q, &to).into_iter().map(|c| c.text).collect();
            let n_comments = ci.len();
            ci.sort();
            co.sort();
            if ci != co {
                // first comment that is missing or extra
                let mut i = 0;
                let mut j = 0;
                let mut msg = String::new();
                while i < ci.len() || j < co.len() {
                    if i < ci.len() && j < co.len() && ci[i] == co[j] {
                        i += 1;
                        j += 1;
                    } else if j >= co.len() || (i < ci.len() && ci[i] < co[j]) {
                        msg = format!("comment lost: `{}`", short(&ci[i], 80));
                        break;
                    } else {
                        msg = format!("comment created or altered: `{}`", short(&co[j], 80));
                        break;
                    }
                }
                return Verdict::Fail(format!("{msg} ({} comments in, {} out)", ci.len(), co.len()));
            }
            if !case.cfg.sort_requires {
                let a = lex::t_sequence(&case.source, &ti, syn);
                let b = lex::t_sequence(q, &to, syn);
                if let Some(d) = t_diff(&a, &b) {
                    return Verdict::Fail(format!("code tokens changed (code inside a comment?) at {d}"));
                }
            }
            Verdict::Pass { nontrivial: n_comments >= 1 && *q != case.source }
        }
        _ => Verdict::Skip("no output"),
    }
}

// ------------------------------------------------------------------------------------------
// C06

pub fn c06(case: &Case, out: &Outcome) -> Verdict {
    if case.range.is_some() {
        return Verdict::Skip("range given");
    }
    match out {
        Outcome::ParseError(_) => Verdict::Skip("input does not parse"),
        Outcome::Ok(q) => {
            let second = Case { source: q.clone(), cfg: case.cfg, range: None, verify: false };
            match run_format(&second).0 {
                Outcome::Ok(q2) => {
                    if q2 == *q {
                        Verdict::Pass { nontrivial: *q != case.source && q.lines().count() >= 2 }
                    } else {
                        let (la, lb) = first_line_diff(q, &q2);
                        Verdict::Fail(format!("second pass differs: first pass line `{}` vs second pass `{}`", short(&la, 100), short(&lb, 100)))
                    }
                }
                // the first output does not parse: that is C01's violation, not an idempotence statement
                Outcome::ParseError(_) => Verdict::Skip("first output does not parse (C01)"),
                other => Verdict::Fail(format!("second pass did not return output: {other:?}")),
            }
        }
        _ => Verdict::Skip("no output"),
    }
}

pub fn first_line_diff(a: &str, b: &str) -> (String, String) {
    let mut ia = a.split('\n');
    let mut ib = b.split('\n');
    loop {
        match (ia.next(), ib.next()) {
            (Some(x), Some(y)) if x == y => continue,
            (x, y) => return (x.unwrap_or("<end>").to_string(), y.unwrap_or("<end>").to_string()),
        }
    }
}
