//! Independent models of the documented input-level rules (ignore directives, ranges, require
//! groups), computed from the trusted parse of the INPUT and the checker's own lexer.

use serde_json::Value;

pub fn is_token_ref(v: &Value) -> bool {
    v.get("leading_trivia").is_some() && v.get("token").is_some() && v.get("trailing_trivia").is_some()
}

fn pos(v: &Value, key: &str) -> Option<usize> {
    v.get("token")?.get(key)?.get("bytes")?.as_u64().map(|x| x as usize)
}

/// (start of first token, end of last token) of a subtree, trivia excluded; the EOF token is ignored
pub fn span(v: &Value) -> Option<(usize, usize)> {
    fn go(v: &Value, acc: &mut Option<(usize, usize)>) {
        match v {
            Value::Object(m) => {
                if is_token_ref(v) {
                    if v["token"]["token_type"]["type"].as_str() == Some("Eof") {
                        return;
                    }
                    if let (Some(s), Some(e)) = (pos(v, "start_position"), pos(v, "end_position")) {
                        *acc = Some(match *acc {
                            None => (s, e),
                            Some((a, b)) => (a.min(s), b.max(e)),
                        });
                    }
                    return;
                }
                for (_, x) in m {
                    go(x, acc);
                }
            }
            Value::Array(a) => {
                for x in a {
                    go(x, acc);
                }
            }
            _ => {}
        }
    }
    let mut acc = None;
    go(v, &mut acc);
    acc
}

/// the TokenReference with the smallest start offset in a subtree
pub fn first_token(v: &Value) -> Option<&Value> {
    fn go<'a>(v: &'a Value, best: &mut Option<(usize, &'a Value)>) {
        match v {
            Value::Object(m) => {
                if is_token_ref(v) {
                    if let Some(s) = pos(v, "start_position") {
                        if best.map_or(true, |(b, _)| s < b) {
                            *best = Some((s, v));
                        }
                    }
                    return;
                }
                for (_, x) in m {
                    go(x, best);
                }
            }
            Value::Array(a) => {
                for x in a {
                    go(x, best);
                }
            }
            _ => {}
        }
    }
    let mut best = None;
    go(v, &mut best);
    best.map(|(_, t)| t)
}

/// texts of the comments in the leading trivia of the first token of a node
pub fn leading_comment_lines(node: &Value) -> Vec<String> {
    let mut out = Vec::new();
    if let Some(t) = first_token(node) {
        if let Some(arr) = t["leading_trivia"].as_array() {
            for tr in arr {
                let tt = &tr["token_type"];
                match tt["type"].as_str() {
                    Some("SingleLineComment") | Some("MultiLineComment") => {
                        if let Some(c) = tt["comment"].as_str() {
                            for l in c.lines() {
                                out.push(l.trim().to_string());
                            }
                        }
                    }
                    _ => {}
                }
            }
        }
    }
    out
}

pub fn is_block(v: &Value) -> bool {
    v.as_object().map_or(false, |m| m.contains_key("stmts") && (m.len() == 1 || m.contains_key("last_stmt")))
}

/// first-level blocks and table constructors inside a node (not descending into the ones found)
pub fn nested_scopes<'a>(v: &'a Value, out: &mut Vec<&'a Value>) {
    match v {
        Value::Object(m) => {
            if is_block(v) {
                out.push(v);
                return;
            }
            if is_token_ref(v) {
                return;
            }
            for (k, x) in m {
                if k == "TableConstructor" && x.get("braces").is_some() && x.get("fields").is_some() {
                    out.push(x);
                } else {
                    nested_scopes(x, out);
                }
            }
        }
        Value::Array(a) => {
            for x in a {
                nested_scopes(x, out);
            }
        }
        _ => {}
    }
}

#[derive(Debug, Clone)]
pub struct IgnoredNode {
    /// byte range in the input: first token .. last token (plus `;` for statements)
    pub start: usize,
    pub end: usize,
    pub kind: &'static str,
}

/// The nodes the documented rule says are reproduced verbatim.
/// `scope` is a Block or a TableConstructor value (serde image of full_moon's tree).
pub fn ignored_nodes(scope: &Value, out: &mut Vec<IgnoredNode>) {
    let mut disabled = false;
    let mut visit = |node: &Value, semi: Option<&Value>, kind: &'static str, out: &mut Vec<IgnoredNode>| {
        let lines = leading_comment_lines(node);
        for l in &lines {
            if l == "stylua: ignore start" {
                disabled = true;
            } else if l == "stylua: ignore end" {
                disabled = false;
            }
        }
        let ignored = disabled || lines.iter().any(|l| l == "stylua: ignore");
        if ignored {
            if let Some((s, mut e)) = span(node) {
                if let Some(semi) = semi {
                    if let Some((_, se)) = span(semi) {
                        e = e.max(se);
                    }
                }
                out.push(IgnoredNode { start: s, end: e, kind });
            }
        } else {
            let mut inner = Vec::new();
            nested_scopes(node, &mut inner);
            for sc in inner {
                ignored_nodes(sc, out);
            }
        }
    };
    if is_block(scope) {
        if let Some(stmts) = scope["stmts"].as_array() {
            for pair in stmts {
                let semi = pair.get(1).filter(|s| !s.is_null());
                visit(&pair[0], semi, "stmt", out);
            }
        }
        if let Some(ls) = scope.get("last_stmt").filter(|l| !l.is_null()) {
            let semi = ls.get(1).filter(|s| !s.is_null());
            visit(&ls[0], semi, "last_stmt", out);
        }
    } else if let Some(pairs) = scope.get("fields").and_then(|f| f.get("pairs")).and_then(|p| p.as_array()) {
        for p in pairs {
            let field = if let Some(e) = p.get("End") { e } else { &p["Punctuated"][0] };
            visit(field, None, "field", out);
        }
    }
}

#[derive(Debug, Clone)]
pub struct StmtSpan {
    /// first token start .. last token end (exclusive), semicolon excluded
    pub start: usize,
    pub end: usize,
    /// end including the semicolon, if any
    pub end_semi: usize,
    pub depth: usize,
    /// every enclosing block is the body of a statement (not reached through an expression)
    pub direct: bool,
}

/// keys on the path from a statement to a block that is the statement's own body
const BODY_KEYS: [&str; 16] = [
    "block", "else", "else_if", "body", "Do", "While", "Repeat", "NumericFor", "GenericFor", "If", "FunctionDeclaration", "LocalFunction", "TypeFunction",
    "ExportedTypeFunction", "type_function", "function_body",
];

/// every statement at every depth (blocks inside expressions included), in source order
pub fn all_statements(scope: &Value, depth: usize, out: &mut Vec<StmtSpan>) {
    all_statements_inner(scope, depth, true, out)
}

fn all_statements_inner(scope: &Value, depth: usize, direct: bool, out: &mut Vec<StmtSpan>) {
    if is_block(scope) {
        let mut visit = |node: &Value, semi: Option<&Value>, out: &mut Vec<StmtSpan>| {
            if let Some((s, e)) = span(node) {
                let end_semi = semi.and_then(span).map_or(e, |(_, se)| se.max(e));
                out.push(StmtSpan { start: s, end: e, end_semi, depth, direct });
            }
            let mut inner = Vec::new();
            nested_blocks_flagged(node, true, &mut inner);
            for (b, d) in inner {
                all_statements_inner(b, depth + 1, direct && d, out);
            }
        };
        if let Some(stmts) = scope["stmts"].as_array() {
            for pair in stmts {
                visit(&pair[0], pair.get(1).filter(|s| !s.is_null()), out);
            }
        }
        if let Some(ls) = scope.get("last_stmt").filter(|l| !l.is_null()) {
            visit(&ls[0], ls.get(1).filter(|s| !s.is_null()), out);
        }
    }
}

/// first-level blocks inside a node, with a flag telling whether the path used statement-body keys only
pub fn nested_blocks_flagged<'a>(v: &'a Value, direct: bool, out: &mut Vec<(&'a Value, bool)>) {
    match v {
        Value::Object(m) => {
            if is_block(v) {
                out.push((v, direct));
                return;
            }
            if is_token_ref(v) {
                return;
            }
            for (k, x) in m {
                nested_blocks_flagged(x, direct && BODY_KEYS.contains(&k.as_str()), out);
            }
        }
        Value::Array(a) => {
            for x in a {
                nested_blocks_flagged(x, direct, out);
            }
        }
        _ => {}
    }
}

// ------------------------------------------------------------------------------------------
// require sorting (README "Requires Sorting" + module header of sort_requires.rs)

#[derive(Debug, Clone, PartialEq, Eq)]
pub enum ReqKind {
    Require,
    GetService,
}

#[derive(Debug, Clone)]
pub struct TopStmt {
    pub kind: Option<ReqKind>,
    pub name: String,
    pub start_line: usize,
    pub end_line: usize,
    pub ignored: bool,
    /// inside a `-- stylua: ignore start` ... `-- stylua: ignore end` region
    pub in_region: bool,
    pub span: (usize, usize),
}

fn tok_ident(v: &Value) -> Option<&str> {
    v.get("token")?.get("token_type")?.get("identifier")?.as_str()
}

fn line_of(v: &Value, key: &str) -> Option<usize> {
    v.get("token")?.get(key)?.get("line")?.as_u64().map(|x| x as usize)
}

fn last_line(v: &Value) -> usize {
    fn go(v: &Value, best: &mut usize) {
        match v {
            Value::Object(m) => {
                if is_token_ref(v) {
                    if let Some(l) = line_of(v, "end_position") {
                        *best = (*best).max(l);
                    }
                    return;
                }
                for (_, x) in m {
                    go(x, best);
                }
            }
            Value::Array(a) => {
                for x in a {
                    go(x, best);
                }
            }
            _ => {}
        }
    }
    let mut best = 0;
    go(v, &mut best);
    best
}

fn require_kind(expr: &Value) -> Option<ReqKind> {
    if let Some(ta) = expr.get("TypeAssertion") {
        return require_kind(&ta["expression"]);
    }
    let fc = expr.get("FunctionCall")?;
    let name = tok_ident(fc.get("prefix")?.get("Name")?)?;
    if name == "require" {
        return Some(ReqKind::Require);
    }
    if name == "game" {
        let first = fc.get("suffixes")?.as_array()?.first()?;
        let mc = first.get("Call")?.get("MethodCall")?;
        if tok_ident(mc.get("name")?)? == "GetService" {
            return Some(ReqKind::GetService);
        }
    }
    None
}

/// top-level statements of a program with what the require-sorting rule needs to know about each
pub fn top_statements(block: &Value) -> Vec<TopStmt> {
    let mut out = Vec::new();
    let Some(stmts) = block.get("stmts").and_then(|s| s.as_array()) else { return out };
    let mut region = false;
    for pair in stmts {
        let stmt = &pair[0];
        let mut t = TopStmt { kind: None, name: String::new(), start_line: 0, end_line: 0, ignored: false, in_region: false, span: span(stmt).unwrap_or((0, 0)) };
        if let Some(la) = stmt.get("LocalAssignment") {
            let names = la["name_list"]["pairs"].as_array().cloned().unwrap_or_default();
            let exprs = la["expr_list"]["pairs"].as_array().cloned().unwrap_or_default();
            if names.len() == 1 && exprs.len() == 1 {
                let name_tok = if let Some(e) = names[0].get("End") { e.clone() } else { names[0]["Punctuated"][0].clone() };
                let expr = if let Some(e) = exprs[0].get("End") { e.clone() } else { exprs[0]["Punctuated"][0].clone() };
                if let Some(k) = require_kind(&expr) {
                    t.kind = Some(k);
                    t.name = tok_ident(&name_tok).unwrap_or("").to_string();
                    t.start_line = line_of(&name_tok, "start_position").unwrap_or(0);
                }
            }
        }
        t.end_line = last_line(stmt).max(pair.get(1).map_or(0, last_line));
        let lines = leading_comment_lines(stmt);
        for l in &lines {
            if l == "stylua: ignore start" {
                region = true;
            } else if l == "stylua: ignore end" {
                region = false;
            }
        }
        t.in_region = region;
        t.ignored = region || lines.iter().any(|l| l == "stylua: ignore");
        out.push(t);
    }
    out
}

/// The permutation the documented rule prescribes: result[i] = index of the input statement that comes i-th.
/// `untouchable(i)`: statement i must not move (ignored, or not wholly inside the range)
pub fn expected_order(stmts: &[TopStmt], untouchable: &dyn Fn(usize) -> bool) -> Vec<usize> {
    let mut order: Vec<usize> = Vec::with_capacity(stmts.len());
    let mut i = 0;
    while i < stmts.len() {
        match &stmts[i].kind {
            None => {
                order.push(i);
                i += 1;
            }
            Some(k) => {
                let mut j = i + 1;
                while j < stmts.len() && stmts[j].kind.as_ref() == Some(k) && stmts[j].start_line.saturating_sub(stmts[j - 1].end_line) <= 1 {
                    j += 1;
                }
                let mut group: Vec<usize> = (i..j).collect();
                if !group.iter().any(|&g| untouchable(g)) {
                    group.sort_by(|&a, &b| stmts[a].name.cmp(&stmts[b].name));
                }
                order.extend(group);
                i = j;
            }
        }
    }
    order
}
