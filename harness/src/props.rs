//! Registry of the library-level (engine E1) properties.

use crate::e1::{gen_standard, E1Prop};
use crate::engine::Case;
use crate::gen::GenOpts;
use crate::oracle;
use crate::tape::Tape;

/// one case in eight: a top level of require / GetService locals (module `genreq`) with sort_requires on, half of
/// them with a range, so that the sort step is exercised together with everything downstream of it
fn gen_requires_mix(t: &mut Tape, l: &mut Vec<&'static str>) -> Option<Case> {
    use crate::lex::Syntax;
    let syn = if t.chance(128) { Syntax::Luau } else { Syntax::Lua51 };
    let mut cfg = crate::cfg::gen_cfg(t, syn);
    cfg.sort_requires = !t.chance(30);
    let src = crate::genreq::generate(t, syn, &crate::genreq::ReqOpts { ignores: true, regions: false, inline_comments: true }, l);
    let mut case = Case::new(src, cfg);
    l.push("requires-top-level");
    if t.chance(128) {
        let n = case.source.len();
        let a = t.pick_wide(4096) * (n + 1) / 4096;
        let b = t.pick_wide(4096) * (n + 1) / 4096;
        case.range = Some((Some(a.min(b)), Some(a.max(b))));
        l.push("range");
    }
    Some(case)
}

fn gen_c01(t: &mut Tape, l: &mut Vec<&'static str>) -> Option<Case> {
    if t.chance(32) {
        return gen_requires_mix(t, l);
    }
    gen_standard(t, l, GenOpts::stmt_comments(), true, true)
}
fn gen_c02(t: &mut Tape, l: &mut Vec<&'static str>) -> Option<Case> {
    gen_standard(t, l, GenOpts::stmt_comments(), false, true)
}
fn gen_c03(t: &mut Tape, l: &mut Vec<&'static str>) -> Option<Case> {
    if t.chance(32) {
        return gen_requires_mix(t, l);
    }
    gen_standard(t, l, GenOpts::stmt_comments(), true, true)
}
fn gen_c06(t: &mut Tape, l: &mut Vec<&'static str>) -> Option<Case> {
    // clean programs (no comments inside expressions, semicolons or odd spacing), with the width drawn relative to
    // the program's natural width so that wrapping boundaries are hit deliberately. One case in three also carries
    // redundant parentheses (conditions, sub-expressions, doubled): their removal makes the formatted text narrower
    // than the text the first run measures, so the width keeps a margin of two columns per parenthesis pair there
    let mode = t.pick(8);
    let k = t.pick(64);
    if t.chance(20) {
        // a top level of require groups (multi-line requires, comments, directives) with sorting on, at the default
        // width: a second run must neither re-group nor re-order
        use crate::lex::Syntax;
        let syn = if t.chance(128) { Syntax::Luau } else { Syntax::Lua51 };
        let mut cfg = crate::cfg::gen_cfg(t, syn);
        cfg.sort_requires = true;
        cfg.column_width = 120 + k;
        let src = crate::genreq::generate(t, syn, &crate::genreq::ReqOpts { ignores: true, regions: true, inline_comments: false }, l);
        l.push("requires-top-level");
        return Some(Case::new(src, cfg));
    }
    if t.chance(64) {
        // messy programs (semicolons, odd spacing, CRLF lines, blank lines, redundant parentheses, statement-level
        // comments) at a width nothing reaches: what the second run could still change is not a layout decision
        let opts = GenOpts { c_before_stmt: true, c_after_stmt_block: true, c_after_stmt_line: true, c_block_end: true, inner_newlines: false, flat: true, ..GenOpts::plain() };
        let mut case = gen_standard(t, l, opts, true, false)?;
        case.cfg.column_width = 100_000 + k;
        l.push("width:unreachable(messy)");
        return Some(case);
    }
    let parens = t.chance(85);
    // a third of the programs are one or two short statements: the longest line is then the statement under test, so
    // that every statement kind meets its own "just fits" boundary (at 9 % failures on the unchanged tree, widths below
    // the natural width are not in the domain)
    let small = t.chance(85);
    let mut opts = GenOpts { c_before_stmt: true, c_after_stmt_block: true, c_after_stmt_line: true, c_block_end: true, redundant_parens: parens, ..GenOpts::clean() };
    if small {
        opts.max_stmts = 1 + k % 2;
        opts.budget = 12;
        l.push("size:small");
    }
    let mut case = gen_standard(t, l, opts, true, false)?;
    if let Some((natural, formatted)) = natural_rendering(&case) {
        let _ = mode;
        // the first run measures some constructs as they are written (D9): the width keeps one column of margin for
        // every non-blank character the formatter removes (redundant parentheses, call parentheses under
        // call_parentheses = None / NoSingle*)
        let nonblank = |t: &str| t.chars().filter(|c| !c.is_whitespace()).count();
        // (with redundant parentheses in the program, removals and additions can cancel in that count: two columns per
        // parenthesis pair of the source instead)
        let margin = if parens { 2 * case.source.matches('(').count() } else { nonblank(&case.source).saturating_sub(nonblank(&formatted)) };
        if case.cfg.column_width < natural + margin || small {
            case.cfg.column_width = natural + margin + k % 4;
            l.push(if margin > 0 { "width:natural+removed+0..3" } else { "width:natural+0..3" });
        } else {
            l.push("width:roomy-as-drawn");
        }
    }
    Some(case)
}

/// the program formatted at infinite width, and the width of its longest line (tabs counted as indent_width columns)
pub fn natural_rendering(case: &Case) -> Option<(usize, String)> {
    let mut c = case.clone();
    c.cfg.column_width = usize::MAX;
    c.range = None;
    match crate::engine::run_format(&c).0 {
        crate::engine::Outcome::Ok(q) => {
            let w = q.lines().map(|line| line.chars().map(|ch| if ch == '\t' { c.cfg.indent_width } else { 1 }).sum::<usize>()).max().unwrap_or(0);
            Some((w, q))
        }
        _ => None,
    }
}

/// longest line (tabs counted as indent_width columns) of the program formatted at infinite width
pub fn natural_width(case: &Case) -> Option<usize> {
    let mut c = case.clone();
    c.cfg.column_width = usize::MAX;
    c.range = None;
    match crate::engine::run_format(&c).0 {
        crate::engine::Outcome::Ok(q) => Some(
            q.lines()
                .map(|line| line.chars().map(|ch| if ch == '\t' { c.cfg.indent_width } else { 1 }).sum::<usize>())
                .max()
                .unwrap_or(0),
        ),
        _ => None,
    }
}

/// T3 sizes (quick, thorough): fixed work; the allow list was validated with far more trials than either (DESIGN 2.4)
const T3_CASES: (u32, u32) = (60_000, 240_000);

fn t3_size(tier: crate::run::Tier, sizes: (u32, u32)) -> u32 {
    let n = match tier {
        crate::run::Tier::Quick => sizes.0,
        crate::run::Tier::Thorough => sizes.1,
    };
    std::env::var("VERIF_T3_CASES").ok().and_then(|v| v.parse().ok()).unwrap_or(n)
}
fn c01_t3(rep: &mut crate::run::Reporter, stats: &mut crate::run::Stats, tier: crate::run::Tier, findings: &[crate::run::Finding]) {
    crate::e1::t3(&C01, crate::run::seed(), t3_size(tier, T3_CASES), findings, rep, stats, false);
}
fn c02_t3(rep: &mut crate::run::Reporter, stats: &mut crate::run::Stats, tier: crate::run::Tier, findings: &[crate::run::Finding]) {
    crate::e1::t3(&C02, crate::run::seed(), t3_size(tier, T3_CASES), findings, rep, stats, false);
}
fn c03_t3(rep: &mut crate::run::Reporter, stats: &mut crate::run::Stats, tier: crate::run::Tier, findings: &[crate::run::Finding]) {
    crate::e1::t3(&C03, crate::run::seed(), t3_size(tier, T3_CASES), findings, rep, stats, false);
}

pub static C01: E1Prop = E1Prop {
    id: "C01",
    oracle: |c, o, _| oracle::c01(c, o),
    rule: "T0: every pinned corpus file x 25 catalogue configurations; T2: a passing corpus pair with 1-3 comments inserted at statement level (own line before a statement, end of line after a statement); T1: grammar-generated programs (all six syntaxes, statement-level comments, random configuration, optional range, optional require sorting). T3: one block / multi-line block / own-line comment inserted into a gap between two code tokens of a generated comment-free program or a corpus file, only in roles (form, bracket context, last structural keyword, neighbouring token classes) of the calibrated allow list domain/t3roles.allow. Oracle: output re-parses with full_moon under the same syntax and the checker's lexer accepts it. Non-trivial: output differs from input and the input has >= 6 code tokens; distinct by hash of (source, config, range).",
    gen_case: gen_c01,
    quick_cases: 200_000,
    thorough_cases: 2_000_000,
    use_t0: true,
    tape_len: 600,
    assumptions: &[],
    extra: Some(c01_t3),
    exclude: None,
    raw_oracle: None,
    t2_cases: (20_000, 400_000),
};

pub static C02: E1Prop = E1Prop {
    id: "C02",
    oracle: |c, o, _| oracle::c02(c, o),
    rule: "T0 + T2 + T1 + T3 as C01 with sort_requires off. Oracle: semantic normal form N (own walk over full_moon's tree: parentheses, semicolons, separators, quote/escape/number spelling and call sugar erased, truncating parentheses kept) and semantic token sequence T (own lexer) are equal for input and output. Non-trivial: output differs and the input contains a redundant parenthesis, semicolon, escape / single-quoted string, leading-dot number or call sugar.",
    gen_case: gen_c02,
    quick_cases: 60_000,
    thorough_cases: 2_000_000,
    use_t0: true,
    tape_len: 600,
    assumptions: &["N erases exactly the differences the property allows; `(f())` / `(...)` are kept only in multi-value positions"],
    extra: Some(c02_t3),
    exclude: None,
    raw_oracle: None,
    t2_cases: (20_000, 400_000),
};

pub static C03: E1Prop = E1Prop {
    id: "C03",
    oracle: |c, o, _| oracle::c03(c, o),
    rule: "T0 + T2 (corpus pairs with inserted statement-level comments) + T1 (programs with comments in whitelisted statement-level roles, after block openers, shebang, all comment forms) + T3 (a comment in a token gap inside a statement, roles of the calibrated allow list). Oracle: multiset of comments (own lexer; line comments right-trimmed, CRLF->LF inside block comments) is unchanged and the code token sequence T is unchanged. Non-trivial: at least one comment and output differs from input.",
    gen_case: gen_c03,
    quick_cases: 200_000,
    thorough_cases: 2_000_000,
    use_t0: true,
    tape_len: 600,
    assumptions: &[],
    extra: Some(c03_t3),
    exclude: None,
    raw_oracle: None,
    t2_cases: (20_000, 400_000),
};

/// Known finding KF-C06-ifexpr-semicolon-multiline-comment: Luau input with a block comment that spans lines and starts
/// behind code on a line that holds a `;` in front of it or the `else` of an if-expression (the first run moves such a
/// comment - off the removed `;`, out of parentheses it adds - after it has decided the layout of the if-expression)
fn c06_semicolon_multiline_comment(c: &Case) -> Option<&'static str> {
    if c.cfg.syntax != crate::lex::Syntax::Luau {
        return None;
    }
    let src = &c.source;
    let mut from = 0;
    while let Some(p) = src[from..].find("--[") {
        let at = from + p;
        from = at + 3;
        let rest = &src[at + 3..];
        let level = rest.bytes().take_while(|x| *x == b'=').count();
        if !rest[level..].starts_with('[') {
            continue;
        }
        let close = format!("]{}]", "=".repeat(level));
        let body = &rest[level + 1..];
        let end = body.find(&close).unwrap_or(body.len());
        if !body[..end].contains('\n') {
            continue;
        }
        let line_start = src[..at].rfind('\n').map_or(0, |q| q + 1);
        let before = &src[line_start..at];
        let code = before.trim();
        if code.ends_with(';') || before.contains("else ") || before.contains("else\t") {
            return Some("KF-C06-ifexpr-semicolon-multiline-comment");
        }
    }
    None
}

pub static C06: E1Prop = E1Prop {
    id: "C06",
    oracle: |c, o, _| oracle::c06(c, o),
    rule: "T0 + T2 (corpus pairs, all catalogue widths, with inserted statement-level comments) + T1 without range: clean programs (single spaces, no semicolons, no comments inside expressions; statement-level comments incl. own-line comments before `end`) at a width >= the program's natural width (natural + 0..3 when the drawn width is smaller); one case in three with redundant parentheses (conditions, sub-expressions, doubled) at natural width + two columns per parenthesis pair + 0..3. One case in four: messy single-line statements (semicolons, odd spacing, CRLF lines, blank lines, redundant parentheses, statement-level comments) at a width nothing reaches (100 000+). Oracle: format(format(p,c),c) == format(p,c) byte for byte. Non-trivial: first output differs from the input and has >= 2 lines.",
    gen_case: gen_c06,
    quick_cases: 150_000,
    thorough_cases: 1_500_000,
    use_t0: true,
    tape_len: 600,
    assumptions: &[],
    extra: Some(crate::enums::c06_extra),
    exclude: Some(c06_semicolon_multiline_comment),
    raw_oracle: None,
    t2_cases: (20_000, 400_000),
};

fn gen_c04(t: &mut Tape, l: &mut Vec<&'static str>) -> Option<Case> {
    gen_standard(t, l, GenOpts::stmt_comments(), false, true)
}

pub static C04: E1Prop = E1Prop {
    id: "C04",
    oracle: |c, o, _| oracle::c04(c, o),
    rule: "E2 (seed independent, exhaustive): every string body over the escape-relevant alphabet {' \" \\ n 0 1 9 x u { } z a q LF space} up to length 3 plus length 4 over an 11-symbol sub-alphabet (quick) / length 4 plus length 5 over the sub-alphabet, CRLF and lone CR variants (thorough), in single-quoted, double-quoted and long-bracket (level 0 and 1) form, each placed in six syntactic positions of one program (assignment, call without parentheses, call argument, table key, index, concatenation) x 4 quote styles x 2 line endings x {Lua51, Lua54, Luau}; every numeric spelling of a grammar enumeration per syntax (decimal / hex / hex-float / exponent / 64-bit edge values / Luau separators and binary / LuaJIT suffixes) in four positions, with and without verify mode. Plus T0 (corpus x catalogue) and T1 (generated programs). Oracle: for every literal token in order, the value denoted in the output (own decoder: all Lua escapes, \\z, line continuations, long-bracket newline rules; numbers as 64-bit integer or IEEE double per syntax) equals the value in the input. Non-trivial: at least one literal is re-spelled. Literals the parser rejects are skipped and counted.",
    gen_case: gen_c04,
    quick_cases: 30_000,
    thorough_cases: 500_000,
    use_t0: true,
    tape_len: 600,
    assumptions: &["digits are represented by 0, 1, 9 (both regular expressions of the quote rewrite treat all digits alike)", "an unknown escape `\\c` denotes `c` (Lua 5.1 rule, which full_moon accepts in every syntax)"],
    extra: Some(crate::enums::c04_extra),
    exclude: Some(|c| if oracle::lone_cr_next_to_break(&c.source) { Some("KF-C04-lone-cr-before-crlf") } else { None }),
    raw_oracle: None,
    t2_cases: (20_000, 400_000),
};

fn gen_none(_t: &mut Tape, _l: &mut Vec<&'static str>) -> Option<Case> {
    None
}

pub static C05: E1Prop = E1Prop {
    id: "C05",
    oracle: |c, o, _| match oracle::c01(c, o) {
        Verdict::Fail(d) => Verdict::Fail(d),
        _ => oracle::c02(c, o),
    },
    rule: "E2 (seed independent): expression skeletons over every binary operator of the syntax (or and < == .. + * ^ and, where available, // | ~ & <<) and every unary operator (- not # ~), with one and two operators exhaustively plus unary-in-binary-in-binary shapes (quick, every 11th item) and three operators over 8 operators (thorough, all items), parentheses absent / single / double on every inner node, leaves = names of 1, 8 and 30 characters or one special leaf (number, string, call, `...`, `(f())`, `(...)`, method call, index, table, function, Luau `x :: T`, `(x :: T)`, if-expression bare and parenthesised), each placed in 16 contexts (local, assignment, return single / last, if / while / until condition, argument single / last, method argument, table field positional-last / named / key, index, call prefix, index prefix) and formatted at 6 width classes relative to its natural width (infinite, natural, natural-1, half, third, 1) so that single-line, hanging-at-top and hanging-everywhere layouts all occur. Oracle: the output parses and has the same normal form N (operator tree with explicit grouping, `trunc` markers in multi-value positions, type assertions, if-expressions) and token sequence T as the input. Non-trivial: the output has fewer parentheses than the input.",
    gen_case: gen_none,
    quick_cases: 0,
    thorough_cases: 0,
    use_t0: false,
    tape_len: 8,
    assumptions: &["comments are absent from the enumerated programs (C03 covers comments on removed parentheses)"],
    extra: Some(crate::enums::c05_extra),
    exclude: None,
    raw_oracle: None,
    t2_cases: (0, 0),
};

fn gen_c08(t: &mut Tape, l: &mut Vec<&'static str>) -> Option<Case> {
    if t.chance(24) {
        // directives and regions among require groups, with sorting on: ignored statements stay where they are
        use crate::lex::Syntax;
        let syn = if t.chance(128) { Syntax::Luau } else { Syntax::Lua51 };
        let mut cfg = crate::cfg::gen_cfg(t, syn);
        cfg.sort_requires = true;
        let src = crate::genreq::generate(t, syn, &crate::genreq::ReqOpts { ignores: true, regions: true, inline_comments: true }, l);
        l.push("requires-top-level");
        return Some(Case::new(src, cfg));
    }
    // one case in four with a range (any two offsets, also inside an ignored statement): the directive wins over the range
    let with_range = t.chance(64);
    let mut case = gen_standard(t, l, GenOpts { ignores: true, ..GenOpts::stmt_comments() }, false, false)?;
    if with_range {
        let n = case.source.len();
        let a = t.pick_wide(4096) * (n + 1) / 4096;
        let b = t.pick_wide(4096) * (n + 1) / 4096;
        case.range = match t.pick(4) {
            0 => Some((Some(a), None)),
            1 => Some((None, Some(b))),
            _ => Some((Some(a.min(b)), Some(a.max(b)))),
        };
        l.push("range");
    }
    Some(case)
}

pub static C08: E1Prop = E1Prop {
    id: "C08",
    oracle: |c, o, _| oracle::c08(c, o),
    rule: "T0 (corpus files with ignore directives x catalogue) + T1: generated programs with `-- stylua: ignore` before any statement kind at any depth and before table fields, `ignore start` / `ignore end` regions (closed, unclosed, end without start), ignored code rendered with odd spacing, with / without `;` and trailing comments, all configurations (sort_requires off); one case in four with a formatting range whose bounds may fall inside an ignored statement (first half of the oracle only). Oracle: the checker computes the ignored nodes from the INPUT by the documented rule (directive line in the leading comments; region state per block / table); each node's source slice [first token .. last token, plus `;` for statements] must occur verbatim in the output, in order, at the same position in the semantic token sequence; and every top-level statement that neither contains nor neighbours an ignored node equals its text in the output obtained with the directives neutralised. Non-trivial: at least one ignored slice would have been changed by the formatter.",
    gen_case: gen_c08,
    quick_cases: 120_000,
    thorough_cases: 2_000_000,
    use_t0: true,
    tape_len: 600,
    assumptions: &["with sort_requires on only the first half of the oracle applies (ignored nodes verbatim, in order, at their position)", "a directive counts when a line of a leading comment, trimmed, equals the directive (README + context.rs)"],
    extra: None,
    exclude: None,
    raw_oracle: None,
    t2_cases: (0, 0),
};

fn gen_c09(t: &mut Tape, l: &mut Vec<&'static str>) -> Option<Case> {
    let mode = t.pick(12);
    let i = t.pick_wide(1 << 16);
    let j = t.pick_wide(1 << 16);
    let nudge = t.pick(5);
    let requires = t.chance(40);
    let mut case = if requires {
        // require blocks with sorting on: a group that is not wholly inside the range must not move
        use crate::lex::Syntax;
        let syn = if t.chance(90) { Syntax::Luau } else { Syntax::Lua51 };
        let mut cfg = crate::cfg::gen_cfg(t, syn);
        cfg.sort_requires = true;
        l.push("sort-requires-with-range");
        let src = crate::genreq::generate(t, syn, &crate::genreq::ReqOpts { ignores: false, regions: false, inline_comments: true }, l);
        Case::new(src, cfg)
    } else {
        // a third of the programs carry ignore directives: an ignored statement is left as written whether the range
        // covers it, cuts it or lies inside it
        let ignores = t.chance(85);
        gen_standard(t, l, GenOpts { ignores, ..GenOpts::stmt_comments() }, false, false)?
    };
    let syn = case.cfg.syntax;
    let ast = crate::engine::guarded(|| crate::norm::parse(&case.source, syn)).ok()?.ok()?;
    let json = serde_json::to_value(ast.nodes()).ok()?;
    let mut stmts = Vec::new();
    crate::model::all_statements(&json, 0, &mut stmts);
    let n = case.source.len();
    if stmts.is_empty() {
        case.range = Some((Some(i * (n + 1) >> 16), Some(j * (n + 1) >> 16)));
        return Some(case);
    }
    let a = &stmts[(i * stmts.len()) >> 16];
    let b = &stmts[(j * stmts.len()) >> 16];
    let (lo, hi) = if a.start <= b.start { (a, b) } else { (b, a) };
    case.range = Some(match mode {
        0 | 1 | 2 => {
            l.push("range:one-statement");
            (Some(a.start), Some(a.end_semi))
        }
        3 | 4 => {
            l.push("range:statement-run");
            (Some(lo.start), Some(hi.end_semi.max(lo.end_semi)))
        }
        5 => {
            l.push("range:mid-token");
            (Some(a.start + 1), Some(a.end_semi + 20))
        }
        6 => {
            l.push("range:nudged");
            (Some(a.start.saturating_sub(nudge)), Some(a.end_semi + nudge))
        }
        7 => {
            l.push("range:open-start");
            (None, Some(a.end_semi))
        }
        8 => {
            l.push("range:open-end");
            (Some(a.start), None)
        }
        9 => {
            l.push("range:empty-or-inverted");
            (Some(hi.start), Some(lo.start))
        }
        10 => {
            l.push("range:whole-file");
            (Some(0), Some(n + 5))
        }
        _ => {
            l.push("range:random-offsets");
            (Some((i * (n + 1)) >> 16), Some((j * (n + 1)) >> 16))
        }
    });
    if a.depth > 0 {
        l.push("range:nested-statement");
    }
    Some(case)
}

/// Known finding KF-C09-typed-local-span: full_moon reports the end of `local x: T` (no value) at the last
/// name, so a range ending inside the type annotation still counts the statement as inside.
fn typed_local_cut_by_range(case: &Case) -> bool {
    let Some((_, Some(e))) = case.range else { return false };
    let Ok(Ok(ast)) = crate::engine::guarded(|| crate::norm::parse(&case.source, case.cfg.syntax)) else { return false };
    let Ok(json) = serde_json::to_value(ast.nodes()) else { return false };
    fn walk(v: &serde_json::Value, e: usize, hit: &mut bool) {
        match v {
            serde_json::Value::Object(m) => {
                if let Some(la) = m.get("LocalAssignment") {
                    let no_value = la.get("equal_token").map_or(true, |t| t.is_null());
                    let typed = la.get("type_specifiers").and_then(|t| t.as_array()).map_or(false, |a| a.iter().any(|x| !x.is_null()));
                    if no_value && typed {
                        if let (Some((_, names_end)), Some((_, full_end))) = (crate::model::span(&la["name_list"]), crate::model::span(la)) {
                            if e + 1 >= names_end && e + 1 < full_end + 1 {
                                *hit = true;
                            }
                        }
                    }
                }
                for (_, x) in m {
                    walk(x, e, hit);
                }
            }
            serde_json::Value::Array(a) => {
                for x in a {
                    walk(x, e, hit);
                }
            }
            _ => {}
        }
    }
    let mut hit = false;
    walk(&json, e, &mut hit);
    hit
}

/// C09 through the command line: `--range-start` / `--range-end` given alone, together and in reverse order, for a file
/// argument and for stdin; the result must be the library's for that range (deterministic tier, seed independent)
fn c09_cli(rep: &mut Reporter, stats: &mut Stats, tier: Tier, _findings: &[Finding]) {
    use crate::cli::{messy_program, run_cli, CliCase};
    let n = if tier == Tier::Thorough { 60 } else { 12 };
    let mut cases: Vec<(CliCase, String, (Option<usize>, Option<usize>), bool)> = Vec::new();
    for k in 0..n {
        let src = format!("{}{}", messy_program(k), messy_program(k + 1));
        let len = src.len();
        let cuts = [len / 4, len / 2, (3 * len) / 4];
        for (i, &a) in cuts.iter().enumerate() {
            let b = cuts[(i + 1) % 3].max(a + 1).min(len);
            let forms: [(Option<usize>, Option<usize>); 4] = [(Some(a), None), (None, Some(b)), (Some(a), Some(b)), (Some(b), Some(a))];
            for range in forms {
                for stdin in [false, true] {
                    let mut case = CliCase::default();
                    case.files.insert(".editorconfig".into(), b"root = true\n".to_vec());
                    let mut argv: Vec<String> = Vec::new();
                    if let Some(s) = range.0 {
                        argv.extend(["--range-start".to_string(), s.to_string()]);
                    }
                    if let Some(e) = range.1 {
                        argv.extend(["--range-end".to_string(), e.to_string()]);
                    }
                    if stdin {
                        case.stdin = Some(src.clone().into_bytes());
                        argv.push("-".into());
                    } else {
                        case.files.insert("r.lua".into(), src.clone().into_bytes());
                        argv.push("r.lua".into());
                    }
                    case.argv = argv;
                    cases.push((case, src.clone(), range, stdin));
                }
            }
        }
    }
    let results = crate::engine::par_map(&cases, |_, (case, _, _, _)| run_cli(case));
    for ((case, src, range, stdin), run) in cases.iter().zip(results.into_iter()) {
        let run = match run {
            Ok(r) => r,
            Err(e) => {
                stats.notes.push(format!("infrastructure: {e}"));
                continue;
            }
        };
        stats.count("E3-range-flags");
        let want = crate::cli::lib_format_full(src, stylua_lib::Config::default(), *range, false);
        let got: Vec<u8> = if *stdin { run.stdout.clone() } else { run.after.get("r.lua").map(|f| f.bytes.clone()).unwrap_or_default() };
        let ok = match &want {
            Some(w) => got == w.as_bytes() && run.code == Some(0),
            None => true,
        };
        if ok {
            if want.as_deref() != Some(src.as_str()) {
                stats.nontrivial.insert(case.hash64());
            }
            stats.label(match range {
                (Some(_), None) => "cli-range:start-only",
                (None, Some(_)) => "cli-range:end-only",
                (Some(a), Some(b)) if a > b => "cli-range:reversed",
                _ => "cli-range:both",
            });
        } else {
            let detail = format!("the command line run with range {:?} ({}) does not give the library's result for that range (exit {:?})", range, if *stdin { "stdin" } else { "file" }, run.code);
            rep.violation(crate::clirun::replay_value("C09", case, &detail, "E3-range-flags", Some(&run)), "E3");
        }
    }
    crate::cli::cleanup_sandboxes();
}

pub static C09: E1Prop = E1Prop {
    id: "C09",
    oracle: |c, o, _| oracle::c09(c, o),
    rule: "E3: the binary run with --range-start / --range-end alone, together and reversed on a file and on stdin must give the library's result for that range (288 runs; thorough 1440). T1: generated programs (a third of them with `-- stylua: ignore` directives and regions) x ranges derived from the statement spans of the trusted parse (exactly one statement at any depth, a run of statements, mid-token, nudged by 0-4 bytes, open-ended on either side, empty / inverted, whole file, random offsets). Oracle: statements are classified inside / outside by the documented rule (a statement ending exactly one byte past the end bound is left unclaimed: README and implementation disagree there); (1) the text before the first and after the last affected statement is unchanged, (2) every outside statement keeps its source text piecewise around affected descendants, located at the same semantic-token position, (3) every outermost inside statement has the same text as in a whole-file run (aligned through the token sequence T), (4) if no statement is inside, the text up to the last token is unchanged. Non-trivial: at least one statement inside and one outside, the inside one compared against the whole-file run, and the output differs from the input.",
    gen_case: gen_c09,
    quick_cases: 200_000,
    thorough_cases: 2_000_000,
    use_t0: false,
    tape_len: 600,
    assumptions: &["a statement carrying `-- stylua: ignore` (or lying in an ignore region) is left as written by whole-file formatting, so it is expected to be left as written under a range too, whether the range covers it or lies inside it", "the EOF trivia is only claimed unchanged when the text after the last affected statement contains a further token"],
    extra: Some(c09_cli),
    exclude: Some(|c| if typed_local_cut_by_range(c) { Some("KF-C09-node-end-position") } else { None }),
    raw_oracle: None,
    t2_cases: (0, 0),
};

fn gen_c12(t: &mut Tape, l: &mut Vec<&'static str>) -> Option<Case> {
    use crate::lex::Syntax;
    let syn = if t.chance(90) { Syntax::Luau } else { Syntax::Lua51 };
    let mut cfg = crate::cfg::gen_cfg(t, syn);
    cfg.sort_requires = !t.chance(50);
    let src = crate::genreq::generate(t, syn, &crate::genreq::ReqOpts { ignores: true, regions: true, inline_comments: true }, l);
    Some(Case::new(src, cfg))
}

pub static C12: E1Prop = E1Prop {
    id: "C12",
    oracle: |c, o, _| oracle::c12(c, o),
    rule: "T0 (corpus x catalogue, sort_requires on in two catalogue entries) + T1: generated top levels interleaving `local NAME = require(...)` / `game:GetService(...)` (14-name pool with duplicates, mixed case and common prefixes; string / path / sugar / multi-line / indexed / concatenated arguments; `:: T`; `;`; trailing and leading comments) with other statements (incl. statements beginning with `(` after a `;`), multi-name locals, blank lines, same-line leading block comments, `-- stylua: ignore` and start / end regions, sort_requires on (80 %) and off. Oracle: an independent model of the README rule (groups = maximal runs of same-kind requires on adjacent lines; stable sort by NAME in byte order; a group with an ignored or out-of-range member is left alone) gives the expected permutation; the per-statement normal forms of the output must equal the permuted normal forms of the input, the last statement is unchanged, and the comment census is unchanged. Non-trivial: at least two require statements and the expected permutation is not the identity (or the option is off).",
    gen_case: gen_c12,
    quick_cases: 100_000,
    thorough_cases: 2_000_000,
    use_t0: true,
    tape_len: 300,
    assumptions: &["a require group with a member inside a `-- stylua: ignore start` / `end` region is expected to stay as written, like a group with a `-- stylua: ignore` member"],
    extra: None,
    exclude: None,
    raw_oracle: None,
    t2_cases: (0, 0),
};

pub fn e1_prop(id: &str) -> Option<&'static E1Prop> {
    match id {
        "C01" => Some(&C01),
        "C02" => Some(&C02),
        "C03" => Some(&C03),
        "C04" => Some(&C04),
        "C05" => Some(&C05),
        "C06" => Some(&C06),
        "C07" => Some(&C07),
        "C08" => Some(&C08),
        "C09" => Some(&C09),
        "C10" => Some(&C10),
        "C12" => Some(&C12),
        "C11" => Some(&C11),
        _ => None,
    }
}

// ---------------------------------------------------------------------------------------------
// C10

/// re-renders the whitespace of a generated source: newline convention and indentation characters
fn rewhitespace(src: &str, newline_mode: usize, indent_mode: usize) -> String {
    let mut out = String::with_capacity(src.len() + 16);
    let mut line_no = 0usize;
    for line in src.split_inclusive('\n') {
        let (body, had_nl) = match line.strip_suffix('\n') {
            Some(b) => (b.strip_suffix('\r').unwrap_or(b), true),
            None => (line, false),
        };
        // indentation
        let ws_len = body.len() - body.trim_start_matches(|c| c == '\t' || c == ' ').len();
        let (ws, rest) = body.split_at(ws_len);
        match indent_mode {
            0 => out.push_str(ws),
            1 => {
                for c in ws.chars() {
                    out.push_str(if c == '\t' { "    " } else { " " });
                }
            }
            2 => {
                for c in ws.chars() {
                    out.push_str(if c == '\t' { "  " } else { " " });
                }
            }
            _ => {
                // mixed
                for (i, c) in ws.chars().enumerate() {
                    if c == '\t' && (i + line_no) % 2 == 0 {
                        out.push_str("   ");
                    } else {
                        out.push(c);
                    }
                }
            }
        }
        out.push_str(rest);
        if had_nl {
            match newline_mode {
                0 => out.push('\n'),
                1 => out.push_str("\r\n"),
                _ => out.push_str(if line_no % 3 == 1 { "\r\n" } else { "\n" }),
            }
        }
        line_no += 1;
    }
    out
}

fn gen_c10(t: &mut Tape, l: &mut Vec<&'static str>) -> Option<Case> {
    let newline_mode = t.pick(3);
    let indent_mode = t.pick(4);
    let mut case = gen_standard(t, l, GenOpts::stmt_comments(), true, false)?;
    case.source = rewhitespace(&case.source, newline_mode, indent_mode);
    l.push(["nl:lf", "nl:crlf", "nl:mixed"][newline_mode]);
    l.push(["indent:tabs", "indent:4sp", "indent:2sp", "indent:mixed"][indent_mode]);
    Some(case)
}

pub static C10: E1Prop = E1Prop {
    id: "C10",
    oracle: |c, o, _| oracle::c10(c, o),
    rule: "T0 (corpus files without ignore directives x 25 configurations) + T1: generated programs re-rendered with LF / CRLF / mixed newlines and tab / space / mixed indentation, random (line_endings, indent_type, indent_width, column_width). Oracle on the output bytes, masked by the checker's lexer: outside string literals every LF is preceded by CR iff Windows and no other CR occurs; every line starting outside a multi-line token is indented with tabs only (Tabs) or a multiple of indent_width spaces (Spaces); non-empty output ends with exactly one line ending. Non-trivial: the input's newline convention / indentation / final newline differs from the configured one and the output differs from the input.",
    gen_case: gen_c10,
    quick_cases: 200_000,
    thorough_cases: 2_000_000,
    use_t0: true,
    tape_len: 600,
    assumptions: &["interior lines of block comments and long strings are content for the indentation rule; string literal contents are exempt from the line-ending rule"],
    extra: None,
    exclude: None,
    raw_oracle: None,
    t2_cases: (20_000, 400_000),
};

// ---------------------------------------------------------------------------------------------
// C11

fn gen_c11(t: &mut Tape, l: &mut Vec<&'static str>) -> Option<Case> {
    gen_standard(t, l, GenOpts::stmt_comments(), true, false)
}

pub static C11: E1Prop = E1Prop {
    id: "C11",
    oracle: |c, o, _| oracle::c11(c, o),
    rule: "T0 + T1 over all 4 quote styles x 5 call-parentheses modes x 4 space modes x widths. Oracle on the re-parsed output: every quoted string uses the quote its style demands (counting quote characters in the body), every call site has the form its mode demands (Always: parentheses; None/NoSingle*: no parentheses around a single plain string/table argument unless an index or method call follows; Input: sequence of forms unchanged), and the gap before every call / definition `(` on the same line is one space exactly when the option names that case. Non-trivial: the program has a string with an inner quote or single quotes, a sugar call or a single-literal call, or a non-default space option, and the output differs from the input.",
    gen_case: gen_c11,
    quick_cases: 100_000,
    thorough_cases: 2_000_000,
    use_t0: true,
    tape_len: 600,
    assumptions: &["programs containing `-- stylua: ignore` are skipped (ignored code is exempt)"],
    extra: None,
    exclude: None,
    raw_oracle: None,
    t2_cases: (20_000, 400_000),
};

// ---------------------------------------------------------------------------------------------
// C07

fn gen_c07(t: &mut Tape, l: &mut Vec<&'static str>) -> Option<Case> {
    let mode = t.pick(12);
    let tail_choice = t.pick(8);
    let width_mode = t.pick(6);
    let verify = t.chance(64);
    let cut_a = t.pick_wide(4096);
    let cut_b = t.pick_wide(4096);
    let range_mode = t.pick(8);
    let mut case = gen_standard(t, l, GenOpts { ignores: true, ..GenOpts::stmt_comments() }, true, false)?;
    match width_mode {
        0 => case.cfg.column_width = 1,
        1 => case.cfg.column_width = 2,
        2 => case.cfg.column_width = usize::MAX,
        3 => case.cfg.column_width = usize::MAX - 1,
        _ => {}
    }
    case.verify = verify;
    if verify {
        l.push("verify");
    }
    let n = case.source.len();
    let at = |x: usize| x * (n + 1) / 4096;
    match range_mode {
        0 => {
            case.range = Some((Some(at(cut_a)), Some(at(cut_b))));
            l.push("range:any-order");
        }
        1 => {
            case.range = Some((Some(n + 10 + cut_a), Some(n + 5)));
            l.push("range:out-of-bounds");
        }
        2 => {
            case.range = Some((None, Some(at(cut_a))));
            l.push("range:open-start");
        }
        3 => {
            case.range = Some((Some(at(cut_a)), None));
            l.push("range:open-end");
        }
        4 => {
            case.range = Some((Some(at(cut_a)), Some(at(cut_a))));
            l.push("range:empty");
        }
        _ => {}
    }
    match mode {
        7 => {
            // truncation at a random byte (kept on a char boundary: the sources are ASCII)
            let k = at(cut_b).min(n);
            if case.source.is_char_boundary(k) {
                case.source.truncate(k);
            }
            l.push("invalid:truncated");
        }
        8 => {
            // splice: second half moved in front of the first half
            let k = at(cut_b).min(n);
            if case.source.is_char_boundary(k) {
                let (a, b) = case.source.split_at(k);
                case.source = format!("{b}{a}");
            }
            l.push("invalid:spliced");
        }
        9 => {
            // delete a slice
            let (mut a, mut b) = (at(cut_a).min(n), at(cut_b).min(n));
            if a > b {
                std::mem::swap(&mut a, &mut b);
            }
            if case.source.is_char_boundary(a) && case.source.is_char_boundary(b) {
                case.source.replace_range(a..b.min(a + 12), "");
            }
            l.push("invalid:deleted-slice");
        }
        10 | 11 => {
            // cut at a line start and end with an incomplete construct: full_moon accepts some of these tails by
            // dropping tokens (D44), which hands the formatter a tree whose positions are inconsistent
            let k = at(cut_b).min(n);
            let cut = case.source[..k].rfind('\n').map_or(0, |p| p + 1);
            case.source.truncate(cut);
            let tails: [&str; 8] = if case.cfg.syntax == crate::lex::Syntax::Luau {
                ["type Foo =", "local x = if c then", "type T = {", "local v = x ::", "local t: {", "export type U =", "return if a then b else", "local y = { a = if c then"]
            } else {
                ["local x =", "return f(", "x = {", "local t = { a = ", "if x then return", "f(function()", "local function g(", "x = a +"]
            };
            case.source.push_str(tails[tail_choice]);
            l.push("invalid:incomplete-tail");
        }
        _ => l.push("valid"),
    }
    Some(case)
}

pub static C07: E1Prop = E1Prop {
    id: "C07",
    oracle: |c, o, t| {
        let v = oracle::c07(c, o, t);
        // panics at locations that are known findings are excluded (counted by the caller through Skip)
        if let Verdict::Fail(d) = &v {
            if d.starts_with("panic:") && oracle::known_panic(d).is_some() && oracle::parses(&c.source, c.cfg.syntax).is_err() {
                return Verdict::Skip("KF-C07-fullmoon-parser-panic");
            }
            // success for text the parser did not consume in full is the dependency's known finding; panics and the
            // work bound are still judged on such input
            if d.starts_with("success returned for text that the parser did not consume") {
                return Verdict::Skip("KF-C07-fullmoon-lossy-parse");
            }
        }
        v
    },
    rule: "T0 (corpus x catalogue incl. width 1 and usize::MAX) + T1: generated valid programs under extreme widths, every range form (any order, empty, out of bounds, open), verify mode on/off, ignore directives; invalid inputs by truncation / splicing / slice deletion of generated programs and by cutting at a line start and appending an incomplete construct (16 tails, some of which full_moon accepts by dropping tokens); + scaling families P(d) for every recursive construct. Oracle: no panic; Ok exactly when the trusted parser accepts the input, ParseError exactly when it rejects it; formatter ticks (deterministic node-visit counter, hook H1) <= max(10^6, 5000 x input bytes); for families the tick growth ratio ticks(d+1)/ticks(d) over the top third of depths stays below 1.6. Non-trivial: every evaluated case (each one exercises the totality claim). T3 (all roles, no allow list): a block / line / own-line / multi-line block comment in any gap between two code tokens of a generated program or a corpus file must not make the formatter panic or exceed the work budget.",
    gen_case: gen_c07,
    quick_cases: 400_000,
    thorough_cases: 4_000_000,
    use_t0: true,
    tape_len: 600,
    assumptions: &[
        "work is measured in formatter ticks, not time; a real hang would show as an exceeded tick budget (controlled unwind)",
        "nesting depth of generated programs is bounded (<= ~12): stack exhaustion at depth ~100 (do-blocks) / ~500 (parentheses) is a recorded finding, observed only in child processes",
    ],
    extra: Some(c07_scaling),
    exclude: None,
    raw_oracle: Some(|c, o, t| oracle::c07(c, o, t)),
    t2_cases: (20_000, 400_000),
};

use crate::oracle::Verdict;
use crate::run::{Finding, Reporter, Stats, Tier};

struct Family {
    name: &'static str,
    make: fn(usize) -> String,
    max_depth: usize,
}

fn nest(open: &str, inner: &str, close: &str, d: usize) -> String {
    let mut s = String::new();
    for _ in 0..d {
        s.push_str(open);
    }
    s.push_str(inner);
    for _ in 0..d {
        s.push_str(close);
    }
    s
}

const FAMILIES: [Family; 15] = [
    Family { name: "call-in-argument", make: |d| format!("local x = {}\n", nest("f(", "1", ")", d)), max_depth: 40 },
    Family { name: "fn-in-call", make: |d| format!("{}\n", nest("f(function() return ", "1", " end)", d)), max_depth: 14 },
    Family { name: "fn-in-call-stmt", make: |d| format!("{}\n", nest("run(function()\n", "x = 1\n", "end)\n", d)), max_depth: 24 },
    Family { name: "fn-in-table", make: |d| format!("local t = {}\n", nest("{ f = function()\nreturn ", "1", "\nend }", d)), max_depth: 24 },
    Family { name: "call-chain-args", make: |d| format!("local x = {}\n", nest("obj:method(1, ", "2", ")", d)), max_depth: 30 },
    Family { name: "table-in-table", make: |d| format!("local t = {}\n", nest("{ a = ", "1", " }", d)), max_depth: 40 },
    Family { name: "paren-in-paren", make: |d| format!("local x = {} + 1\n", nest("(", "a + b", ")", d)), max_depth: 40 },
    Family { name: "binary-chain", make: |d| format!("local x = a{}\n", " + someLongName".repeat(d * 4)), max_depth: 40 },
    Family { name: "unary-chain", make: |d| format!("local x = {}a\n", "not ".repeat(d)), max_depth: 40 },
    Family { name: "block-nesting", make: |d| format!("{}\n", nest("do\n", "local x = 1\n", "end\n", d)), max_depth: 40 },
    Family { name: "if-nesting", make: |d| format!("{}\n", nest("if a then\n", "return 1\n", "end\n", d)), max_depth: 40 },
    Family { name: "method-chain", make: |d| format!("local x = obj{}\n", ":method(arg1, arg2)".repeat(d * 2)), max_depth: 40 },
    Family { name: "index-chain", make: |d| format!("local x = obj{}\n", ".field[1]".repeat(d * 2)), max_depth: 40 },
    Family { name: "concat-strings", make: |d| format!("local s = \"a\"{}\n", " .. \"some string\"".repeat(d * 4)), max_depth: 40 },
    Family { name: "table-wide", make: |d| format!("local t = {{ {} }}\n", "someFieldName = 1, ".repeat(d * 8)), max_depth: 40 },
];

const LUAU_FAMILIES: [Family; 4] = [
    Family { name: "luau:union-nesting", make: |d| format!("type T = {}\n", nest("(number | ", "string", ")", d)), max_depth: 30 },
    Family { name: "luau:callback-nesting", make: |d| format!("type T = {}\n", nest("(x: number) -> (", "string", ")", d)), max_depth: 30 },
    Family { name: "luau:generic-nesting", make: |d| format!("type T = {}\n", nest("Array<", "string", ">", d)), max_depth: 30 },
    Family { name: "luau:if-expression", make: |d| format!("local x = {}\n", nest("if a then 1 else (", "2", ")", d)), max_depth: 30 },
];

/// tick budget for one member of a scaling family (an exponential family stops here)
const FAMILY_BUDGET: u64 = 4_000_000;

/// every numeric spelling of C04's enumeration, formatted in verify mode: must return, never unwind
fn c07_numbers_verify(rep: &mut Reporter, stats: &mut Stats) {
    use crate::cfg::Cfg;
    use crate::engine::run_format;
    use crate::lex::Syntax;
    let mut items: Vec<(Syntax, String)> = Vec::new();
    for syn in Syntax::ALL {
        for n in crate::enums::number_spellings(syn) {
            items.push((syn, n));
        }
    }
    let results = crate::engine::par_map(&items, |_, (syn, n)| {
        let mut case = Case::new(format!("x = {n}\ny = -{n}\n"), Cfg::default_for(*syn));
        case.verify = true;
        let (out, ticks) = run_format(&case);
        (oracle::c07(&case, &out, ticks), case)
    });
    for (v, case) in results {
        match v {
            Verdict::Fail(d) if d.starts_with("panic:") && oracle::known_panic(&d).is_some() && oracle::parses(&case.source, case.cfg.syntax).is_err() => {
                stats.skip("KF-C07-fullmoon-parser-panic");
            }
            Verdict::Fail(d) => {
                stats.count("numbers-verify-mode");
                rep.violation(crate::e1::replay_value("C07", &case, &d, "numbers-verify-mode"), "num");
            }
            _ => {
                stats.count("numbers-verify-mode");
                stats.nontrivial.insert(case.hash64());
            }
        }
    }
}

fn c07_scaling(rep: &mut Reporter, stats: &mut Stats, tier: Tier, findings: &[Finding]) {
    c07_numbers_verify(rep, stats);
    // T3 without an allow list: a comment in ANY gap between two code tokens of a generated or corpus program must not
    // make the formatter panic or exceed its work budget
    crate::e1::t3(&C07, crate::run::seed(), t3_size(tier, (120_000, 1_000_000)), findings, rep, stats, true);
    use crate::cfg::Cfg;
    use crate::engine::{run_format_budget, Outcome};
    use crate::lex::Syntax;
    let widths: &[usize] = if tier == Tier::Thorough { &[120, 40, 1, usize::MAX] } else { &[120, 1] };
    let mut all: Vec<(&Family, Syntax)> = FAMILIES.iter().map(|f| (f, Syntax::Lua51)).collect();
    all.extend(LUAU_FAMILIES.iter().map(|f| (f, Syntax::Luau)));
    let mut items: Vec<(&Family, Syntax, usize)> = Vec::new();
    for (fam, syn) in all {
        for &w in widths {
            items.push((fam, syn, w));
        }
    }
    let results = crate::engine::par_map(&items, |_, (fam, syn, w)| {
        let (fam, syn, w) = (*fam, *syn, *w);
        let mut ticks: Vec<u64> = Vec::new();
        let mut failure: Option<(usize, String, Case)> = None;
        let mut hashes = Vec::new();
        for d in 1..=fam.max_depth {
            let case = Case::new((fam.make)(d), Cfg { column_width: w, ..Cfg::default_for(syn) });
            // budget: generous polynomial bound so that an exponential family stops early
            let (out, t) = run_format_budget(&case, FAMILY_BUDGET);
            hashes.push(case.hash64());
            match out {
                Outcome::Ok(_) => ticks.push(t.max(1)),
                Outcome::Budget(_) => {
                    failure = Some((d, format!("tick budget of {FAMILY_BUDGET} exceeded at depth {d} ({} input bytes)", case.source.len()), case));
                    break;
                }
                other => {
                    failure = Some((d, format!("depth {d}: {other:?}"), case));
                    break;
                }
            }
        }
        if failure.is_none() && ticks.len() >= 9 {
            let n = ticks.len();
            let from = n - n / 3 - 1;
            let mut ratios: Vec<f64> = (from..n - 1).map(|i| ticks[i + 1] as f64 / ticks[i] as f64).collect();
            ratios.sort_by(|a, b| a.partial_cmp(b).unwrap());
            // median, so that one jump (the line crossing the column width) does not count as growth
            let median = ratios[ratios.len() / 2];
            if median >= 1.5 {
                let d = n;
                let case = Case::new((fam.make)(d), Cfg { column_width: w, ..Cfg::default_for(syn) });
                failure = Some((d, format!("formatter work grows by a factor {:.2} per nesting level (ticks at the last depths: {:?})", median, &ticks[n - 4..]), case));
            }
        }
        (ticks, failure, hashes)
    });
    for ((fam, _syn, w), (ticks, failure, hashes)) in items.iter().zip(results.into_iter()) {
        for h in hashes {
            stats.count("scaling-families");
            stats.nontrivial.insert(h);
        }
        stats.label(&format!("family:{}", fam.name));
        if let Some((_, detail, case)) = failure {
            let known = findings.iter().find(|f| f.what.contains(&format!("family={}", fam.name)));
            match known {
                Some(f) => {
                    *stats.excluded.entry(f.id.clone()).or_default() += 1;
                    let what = f.what.clone();
                    let id = f.id.clone();
                    rep.known(&id, &what);
                }
                None => {
                    let mut v = crate::e1::replay_value("C07", &case, &format!("scaling family {} at width {}: {}", fam.name, case.cfg.label(), detail), "scaling-family");
                    v["family"] = serde_json::json!(fam.name);
                    rep.violation(v, "family");
                }
            }
        } else if stats.samples.len() < 4 {
            let d = ticks.len();
            stats.samples.push(serde_json::json!({ "origin": format!("family:{} width:{}", fam.name, w), "depths": d, "ticks_first_last": [ticks.first(), ticks.last()] }));
        }
    }
}
