//! Registry of the library-level (engine E1) properties.

use crate::e1::{gen_standard, E1Prop};
use crate::engine::Case;
use crate::gen::GenOpts;
use crate::oracle;
use crate::tape::Tape;

fn gen_c01(t: &mut Tape, l: &mut Vec<&'static str>) -> Option<Case> {
    gen_standard(t, l, GenOpts::stmt_comments(), true, true)
}
fn gen_c02(t: &mut Tape, l: &mut Vec<&'static str>) -> Option<Case> {
    gen_standard(t, l, GenOpts::stmt_comments(), false, true)
}
fn gen_c03(t: &mut Tape, l: &mut Vec<&'static str>) -> Option<Case> {
    gen_standard(t, l, GenOpts::stmt_comments(), true, true)
}
fn gen_c06(t: &mut Tape, l: &mut Vec<&'static str>) -> Option<Case> {
    // clean programs (no comments, redundant parentheses, semicolons or odd spacing), with the width drawn
    // relative to the program's natural width so that wrapping boundaries are hit deliberately
    let mode = t.pick(8);
    let k = t.pick(64);
    let opts = GenOpts { c_before_stmt: true, c_after_stmt_block: true, c_after_stmt_line: true, ..GenOpts::clean() };
    let mut case = gen_standard(t, l, opts, true, false)?;
    if let Some(natural) = natural_width(&case) {
        let _ = mode;
        if case.cfg.column_width < natural {
            case.cfg.column_width = natural + k % 4;
            l.push("width:natural+0..3");
        } else {
            l.push("width:roomy-as-drawn");
        }
    }
    Some(case)
}

/// longest line (tabs counted as indent_width columns) of the program formatted at infinite width
pub fn natural_width(case: &Case) -> Option<usize> {
    let mut c = case.clone();
    c.cfg.column_width = usize::MAX;
    c.range = None;
    match crate::engine::run_format(&c).0 {
        crate::engine::Outcome::Ok(q) => Some(
            q.lines()
                .map(|line| line.chars().map(|ch| if ch == '\t' { c.cfg.indent_width } else { 1 }).sum::<usize>())
                .max()
                .unwrap_or(0),
        ),
        _ => None,
    }
}

pub static C01: E1Prop = E1Prop {
    id: "C01",
    oracle: oracle::c01,
    rule: "T0: every pinned corpus file x 25 catalogue configurations; T1: grammar-generated programs (all six syntaxes, statement-level comments, random configuration, optional range, optional require sorting). Oracle: output re-parses with full_moon under the same syntax and the checker's lexer accepts it. Non-trivial: output differs from input and the input has >= 6 code tokens; distinct by hash of (source, config, range).",
    gen_case: gen_c01,
    quick_cases: 40_000,
    thorough_cases: 2_000_000,
    use_t0: true,
    tape_len: 600,
    assumptions: &[],
};

pub static C02: E1Prop = E1Prop {
    id: "C02",
    oracle: oracle::c02,
    rule: "T0 + T1 as C01 with sort_requires off. Oracle: semantic normal form N (own walk over full_moon's tree: parentheses, semicolons, separators, quote/escape/number spelling and call sugar erased, truncating parentheses kept) and semantic token sequence T (own lexer) are equal for input and output. Non-trivial: output differs and the input contains a redundant parenthesis, semicolon, escape / single-quoted string, leading-dot number or call sugar.",
    gen_case: gen_c02,
    quick_cases: 40_000,
    thorough_cases: 2_000_000,
    use_t0: true,
    tape_len: 600,
    assumptions: &["N erases exactly the differences the property allows; `(f())` / `(...)` are kept only in multi-value positions"],
};

pub static C03: E1Prop = E1Prop {
    id: "C03",
    oracle: oracle::c03,
    rule: "T0 + T1 (programs with comments in whitelisted statement-level roles, shebang, all comment forms). Oracle: multiset of comments (own lexer; line comments right-trimmed, CRLF->LF inside block comments) is unchanged and the code token sequence T is unchanged. Non-trivial: at least one comment and output differs from input.",
    gen_case: gen_c03,
    quick_cases: 40_000,
    thorough_cases: 2_000_000,
    use_t0: true,
    tape_len: 600,
    assumptions: &[],
};

pub static C06: E1Prop = E1Prop {
    id: "C06",
    oracle: oracle::c06,
    rule: "T0 + T1 without range. Oracle: format(format(p,c),c) == format(p,c) byte for byte. Non-trivial: first output differs from the input and has >= 2 lines.",
    gen_case: gen_c06,
    quick_cases: 30_000,
    thorough_cases: 1_500_000,
    use_t0: true,
    tape_len: 600,
    assumptions: &[],
};

pub fn e1_prop(id: &str) -> Option<&'static E1Prop> {
    match id {
        "C01" => Some(&C01),
        "C02" => Some(&C02),
        "C03" => Some(&C03),
        "C06" => Some(&C06),
        _ => None,
    }
}
