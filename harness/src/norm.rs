//! Semantic normal form N of a program, computed by a generic walk over the serde image of
//! full_moon's AST (full_moon's parser is trusted; StyLua's `verify_ast` is not used).
//!
//! Erased: trivia, positions, semicolons, table separators, redundant parentheses, quote and
//! escape spelling of strings, spelling of numbers, call sugar (`f"s"`, `f{}`), the
//! parentheses tokens themselves. Kept: statement order, operator trees (grouping explicit),
//! names, call / index chains, table fields, parameters, attributes, types, and a `trunc`
//! marker where parentheses around a call or `...` cut a multi-value expression.

use crate::lex::{self, Syntax};
use serde_json::{json, Map, Value};

pub fn fm_version(syn: Syntax) -> full_moon::LuaVersion {
    match syn {
        Syntax::Lua51 => full_moon::LuaVersion::lua51(),
        Syntax::Lua52 => full_moon::LuaVersion::lua52(),
        Syntax::Lua53 => full_moon::LuaVersion::lua53(),
        Syntax::Lua54 => full_moon::LuaVersion::lua54(),
        Syntax::LuaJIT => full_moon::LuaVersion::luajit(),
        Syntax::Luau => full_moon::LuaVersion::luau(),
    }
}

pub fn parse(src: &str, syn: Syntax) -> Result<full_moon::ast::Ast, String> {
    full_moon::parse_fallible(src, fm_version(syn))
        .into_result()
        .map_err(|e| e.iter().map(|x| x.to_string()).collect::<Vec<_>>().join("; "))
}

/// Normal form of a source text, or the parse error
pub fn normal_form(src: &str, syn: Syntax) -> Result<Value, String> {
    let ast = parse(src, syn)?;
    Ok(normal_form_ast(&ast, syn))
}

pub fn normal_form_ast(ast: &full_moon::ast::Ast, syn: Syntax) -> Value {
    let v = serde_json::to_value(ast.nodes()).expect("serialise ast");
    let n = Norm { syn };
    n.norm(&v, false)
}

struct Norm {
    syn: Syntax,
}

fn is_token_ref(m: &Map<String, Value>) -> bool {
    m.contains_key("leading_trivia") && m.contains_key("token") && m.contains_key("trailing_trivia")
}

fn is_contained_span(m: &Map<String, Value>) -> bool {
    m.len() == 1 && m.get("tokens").map_or(false, |t| t.is_array())
}

fn hex(bytes: &[u8]) -> String {
    // printable ASCII stays readable, everything else is escaped; injective
    let mut s = String::with_capacity(bytes.len());
    for &b in bytes {
        if (0x20..0x7f).contains(&b) && b != b'%' {
            s.push(b as char);
        } else {
            s.push_str(&format!("%{b:02x}"));
        }
    }
    s
}

impl Norm {
    fn leaf(&self, m: &Map<String, Value>) -> Value {
        let tt = &m["token"]["token_type"];
        let ty = tt["type"].as_str().unwrap_or("");
        match ty {
            "Symbol" => Value::String(format!("S{}", tt["symbol"].as_str().unwrap_or(""))),
            "Identifier" => Value::String(format!("I{}", tt["identifier"].as_str().unwrap_or(""))),
            "Number" => Value::String(format!("#{}", lex::number_value(tt["text"].as_str().unwrap_or(""), self.syn))),
            "StringLiteral" => {
                let lit = tt["literal"].as_str().unwrap_or("");
                let q = tt["quote_type"].as_str().unwrap_or("");
                let bytes = if q == "Brackets" {
                    let mut t = Vec::with_capacity(lit.len() + 4);
                    t.extend_from_slice(b"[[");
                    t.extend_from_slice(lit.as_bytes());
                    t.extend_from_slice(b"]]");
                    lex::decode_long(&t, 0)
                } else {
                    lex::decode_quoted(lit.as_bytes())
                };
                Value::String(format!("${}", hex(&bytes)))
            }
            "InterpolatedString" => Value::String(format!("`{}:{}", tt["kind"].as_str().unwrap_or(""), tt["literal"].as_str().unwrap_or(""))),
            "Eof" => Value::String("EOF".into()),
            other => Value::String(format!("?{other}:{tt}")),
        }
    }

    /// list of the values of a Punctuated; `multi_last`: the last element is in a multi-value position
    fn punctuated(&self, pairs: &Value, multi_last: bool) -> Value {
        let arr = pairs.as_array().cloned().unwrap_or_default();
        let n = arr.len();
        let mut out = Vec::with_capacity(n);
        for (i, p) in arr.iter().enumerate() {
            let v = if let Some(e) = p.get("End") {
                e
            } else if let Some(pp) = p.get("Punctuated") {
                &pp[0]
            } else {
                p
            };
            out.push(self.norm(v, multi_last && i + 1 == n));
        }
        Value::Array(out)
    }

    fn strip_parens<'a>(&self, mut e: &'a Value) -> &'a Value {
        loop {
            match e.get("Parentheses") {
                Some(p) if p.get("contained").is_some() && p.get("expression").is_some() => e = &p["expression"],
                _ => return e,
            }
        }
    }

    fn args(&self, v: &Value) -> Value {
        // FunctionArgs
        if let Some(p) = v.get("Parentheses") {
            if let Some(a) = p.get("arguments") {
                return json!({ "args": self.punctuated(&a["pairs"], true) });
            }
        }
        if let Some(s) = v.get("String") {
            return json!({ "args": [ { "String": self.norm(s, false) } ] });
        }
        if let Some(t) = v.get("TableConstructor") {
            return json!({ "args": [ { "TableConstructor": self.norm(t, false) } ] });
        }
        self.norm(v, false)
    }

    fn chain(&self, m: &Map<String, Value>) -> Value {
        // object with prefix + suffixes
        let mut suffixes: Vec<Value> = Vec::new();
        let mut prefix = m["prefix"].clone();
        let mut pending: Vec<Value> = m["suffixes"].as_array().cloned().unwrap_or_default().iter().map(|s| self.norm(s, false)).collect();
        loop {
            // flatten `(P S1) S2` into `P S1 S2` when the parenthesised expression is itself a prefix expression
            let Some(e) = prefix.get("Expression") else { break };
            let core = self.strip_parens(e);
            if core as *const _ == e as *const _ {
                // `Expression` that is not parenthesised cannot occur, keep as is
                break;
            }
            if let Some(var) = core.get("Var") {
                if let Some(name) = var.get("Name") {
                    prefix = json!({ "Name": name });
                    break;
                }
                if let Some(inner) = var.get("Expression") {
                    let mut s2: Vec<Value> = inner["suffixes"].as_array().cloned().unwrap_or_default().iter().map(|s| self.norm(s, false)).collect();
                    s2.append(&mut pending);
                    pending = s2;
                    prefix = inner["prefix"].clone();
                    continue;
                }
            }
            if let Some(inner) = core.get("FunctionCall") {
                let mut s2: Vec<Value> = inner["suffixes"].as_array().cloned().unwrap_or_default().iter().map(|s| self.norm(s, false)).collect();
                s2.append(&mut pending);
                pending = s2;
                prefix = inner["prefix"].clone();
                continue;
            }
            break;
        }
        suffixes.append(&mut pending);
        let p = if let Some(e) = prefix.get("Expression") {
            json!({ "Expression": self.norm(e, false) })
        } else {
            self.norm(&prefix, false)
        };
        json!({ "Chain": { "prefix": p, "suffixes": suffixes } })
    }

    fn norm(&self, v: &Value, multi: bool) -> Value {
        match v {
            Value::Array(a) => Value::Array(a.iter().map(|x| self.norm(x, false)).collect()),
            Value::Object(m) => {
                if is_token_ref(m) {
                    return self.leaf(m);
                }
                if is_contained_span(m) {
                    return Value::Null;
                }
                if m.len() == 1 {
                    if let Some(p) = m.get("pairs") {
                        return self.punctuated(p, false);
                    }
                    // Expression::Parentheses
                    if let Some(p) = m.get("Parentheses") {
                        if p.get("contained").is_some() && p.get("expression").is_some() {
                            let core = self.strip_parens(v);
                            let is_multi_valued = core.get("FunctionCall").is_some()
                                || core.get("Symbol").and_then(|s| s["token"]["token_type"]["symbol"].as_str()) == Some("...");
                            let inner = self.norm(core, false);
                            return if is_multi_valued && multi { json!({ "trunc": inner }) } else { inner };
                        }
                    }
                    if let Some(fc) = m.get("FunctionCall") {
                        if let Some(fm) = fc.as_object() {
                            if fm.contains_key("prefix") && fm.contains_key("suffixes") {
                                return self.chain(fm);
                            }
                        }
                    }
                    if let Some(var) = m.get("Var") {
                        if let Some(inner) = var.get("Expression").and_then(|x| x.as_object()) {
                            if inner.contains_key("prefix") && inner.contains_key("suffixes") {
                                return self.chain(inner);
                            }
                        }
                    }
                    if let Some(a) = m.get("AnonymousCall") {
                        return json!({ "Call": self.args(a) });
                    }
                    // Luau: a parenthesised single type `(T)` is T (except as a generic argument, where it is a type pack)
                    if let Some(t) = m.get("Tuple") {
                        if let Some(types) = t.get("types").and_then(|x| x.get("pairs")).and_then(|x| x.as_array()) {
                            if types.len() == 1 && t.as_object().map_or(false, |o| o.keys().all(|k| k == "types" || k == "parentheses")) {
                                let inner = if let Some(e) = types[0].get("End") { e } else { &types[0]["Punctuated"][0] };
                                return self.norm(inner, false);
                            }
                        }
                    }
                }
                // Var::Expression appearing directly (assignment targets): {"Expression": {prefix, suffixes}}
                if m.len() == 1 {
                    if let Some(inner) = m.get("Expression").and_then(|x| x.as_object()) {
                        if inner.contains_key("prefix") && inner.contains_key("suffixes") {
                            return self.chain(inner);
                        }
                    }
                }
                if m.contains_key("prefix") && m.contains_key("suffixes") && m.len() == 2 {
                    return self.chain(m);
                }
                let mut out = Map::new();
                for (k, x) in m {
                    let nv = match k.as_str() {
                        "stmts" => Value::Array(x.as_array().cloned().unwrap_or_default().iter().map(|p| self.norm(&p[0], false)).collect()),
                        "last_stmt" => {
                            if x.is_null() {
                                Value::Null
                            } else {
                                self.norm(&x[0], false)
                            }
                        }
                        "expr_list" | "returns" | "arguments" if x.get("pairs").is_some() => self.punctuated(&x["pairs"], true),
                        "fields" if x.get("pairs").is_some() && m.contains_key("braces") => {
                            // table constructor (or type table): last positional field is a multi-value position
                            let arr = x["pairs"].as_array().cloned().unwrap_or_default();
                            let n = arr.len();
                            let mut out = Vec::new();
                            for (i, p) in arr.iter().enumerate() {
                                let f = if let Some(e) = p.get("End") { e } else if let Some(pp) = p.get("Punctuated") { &pp[0] } else { p };
                                if let (Some(e), true) = (f.get("NoKey"), i + 1 == n) {
                                    out.push(json!({ "NoKey": self.norm(e, true) }));
                                } else {
                                    out.push(self.norm(f, false));
                                }
                            }
                            Value::Array(out)
                        }
                        "args" if m.contains_key("colon_token") => self.args(x),
                        "generics" if m.contains_key("base") && x.get("pairs").is_some() => {
                            // generic arguments: `(T)` is a type pack here, keep the tuple wrapper
                            let arr = x["pairs"].as_array().cloned().unwrap_or_default();
                            let mut out = Vec::new();
                            for p in arr.iter() {
                                let f = if let Some(e) = p.get("End") { e } else if let Some(pp) = p.get("Punctuated") { &pp[0] } else { p };
                                if let Some(t) = f.get("Tuple") {
                                    out.push(json!({ "TypePack": self.norm(&t["types"], false) }));
                                } else {
                                    out.push(self.norm(f, false));
                                }
                            }
                            Value::Array(out)
                        }
                        _ => self.norm(x, false),
                    };
                    if !nv.is_null() || matches!(k.as_str(), "last_stmt") {
                        out.insert(k.clone(), nv);
                    }
                }
                let _ = multi;
                // Luau: `(A | B) | C` is `A | B | C` (likewise `&`); a leading `|` / `&` has no meaning
                if out.len() == 1 {
                    for key in ["Union", "Intersection"] {
                        if let Some(Value::Object(u)) = out.get_mut(key) {
                            u.remove("leading");
                            if let Some(Value::Array(types)) = u.get("types").cloned() {
                                let mut flat = Vec::new();
                                for t in types {
                                    match t.get(key).and_then(|x| x.get("types")).and_then(|x| x.as_array()) {
                                        Some(inner) if t.as_object().map_or(false, |o| o.len() == 1) => flat.extend(inner.iter().cloned()),
                                        _ => flat.push(t),
                                    }
                                }
                                u.insert("types".to_string(), Value::Array(flat));
                            }
                        }
                    }
                }
                Value::Object(out)
            }
            other => other.clone(),
        }
    }
}

/// First path at which two normal forms differ (for reports)
pub fn first_difference(a: &Value, b: &Value) -> Option<String> {
    fn go(a: &Value, b: &Value, path: &mut Vec<String>) -> Option<String> {
        match (a, b) {
            (Value::Object(x), Value::Object(y)) => {
                for (k, v) in x {
                    match y.get(k) {
                        Some(w) => {
                            path.push(k.clone());
                            if let Some(d) = go(v, w, path) {
                                return Some(d);
                            }
                            path.pop();
                        }
                        None => return Some(format!("{}: key {k} only in input", path.join("/"))),
                    }
                }
                for k in y.keys() {
                    if !x.contains_key(k) {
                        return Some(format!("{}: key {k} only in output", path.join("/")));
                    }
                }
                None
            }
            (Value::Array(x), Value::Array(y)) => {
                for (i, (v, w)) in x.iter().zip(y.iter()).enumerate() {
                    path.push(i.to_string());
                    if let Some(d) = go(v, w, path) {
                        return Some(d);
                    }
                    path.pop();
                }
                if x.len() != y.len() {
                    return Some(format!("{}: length {} vs {}", path.join("/"), x.len(), y.len()));
                }
                None
            }
            _ => {
                if a == b {
                    None
                } else {
                    let sa = a.to_string();
                    let sb = b.to_string();
                    Some(format!("{}: {} vs {}", path.join("/"), sa.chars().take(160).collect::<String>(), sb.chars().take(160).collect::<String>()))
                }
            }
        }
    }
    go(a, b, &mut Vec::new())
}
