//! Engine E2: bounded exhaustive enumerations (seed independent) for C04 and C05.

use crate::cfg::{Cfg, Endings, QUOTES};
use crate::engine::{par_map, run_format, Case, Outcome};
use crate::lex::Syntax;
use crate::oracle::{self, Verdict};
use crate::run::{Finding, Reporter, Stats, Tier};
use serde_json::json;

// ------------------------------------------------------------------------------------------
// C04 strings

const ALPHABET_FULL: [&str; 16] = ["'", "\"", "\\", "n", "0", "1", "9", "x", "u", "{", "}", "z", "a", "q", "\n", " "];
const ALPHABET_SMALL: [&str; 11] = ["'", "\"", "\\", "n", "0", "1", "9", "x", "a", "\n", " "];

fn bodies(alphabet: &[&str], max_len: usize) -> Vec<String> {
    let mut out = vec![String::new()];
    let mut frontier = vec![String::new()];
    for _ in 0..max_len {
        let mut next = Vec::with_capacity(frontier.len() * alphabet.len());
        for b in &frontier {
            for a in alphabet {
                let mut s = b.clone();
                s.push_str(a);
                next.push(s);
            }
        }
        out.extend(next.iter().cloned());
        frontier = next;
    }
    out
}

/// one program holding the string literal `lit` in every syntactic position a string can take
fn string_program(lit: &str) -> String {
    // blanks inside the index brackets: `[[[s]]]` would open a long string one bracket early
    format!("x = {lit}\nf {lit}\nf({lit})\nt = {{ [ {lit} ] = 1 }}\ny = t[ {lit} ]\nz = {lit} .. {lit}\n")
}

fn string_forms(body: &str, extra_newlines: bool) -> Vec<(String, &'static str)> {
    let mut v = vec![(format!("'{body}'"), "single"), (format!("\"{body}\""), "double")];
    // long brackets when the body cannot close them
    if !body.contains("]]") && !body.ends_with(']') {
        v.push((format!("[[{body}]]"), "long0"));
    }
    if !body.contains("]=]") {
        v.push((format!("[=[{body}]=]"), "long1"));
    }
    if body.contains('\n') {
        if extra_newlines {
            v.push((format!("\"{}\"", body.replace('\n', "\r\n")), "double-crlf"));
        }
        // line breaks of a long string written as CR LF or as a lone CR (each is one line break of the value)
        v.push((format!("[[{}]]", body.replace('\n', "\r\n")), "long0-crlf"));
        v.push((format!("[[{}]]", body.replace('\n', "\r")), "long0-cr"));
    }
    v
}

pub fn c04_strings(rep: &mut Reporter, stats: &mut Stats, tier: Tier, _findings: &[Finding]) {
    let mut all: Vec<String> = bodies(&ALPHABET_FULL, if tier == Tier::Thorough { 4 } else { 3 });
    {
        let n = if tier == Tier::Thorough { 5 } else { 4 };
        let mut more = bodies(&ALPHABET_SMALL, n);
        more.retain(|b| b.chars().count() == n);
        all.extend(more);
    }
    // sequences of whole escape units: the interplay of neighbouring escapes (`\z` followed by an escaped blank, an
    // escaped quote after a decimal escape, ...) lies beyond the character-level lengths above
    {
        // (the last five: a raw line break, text that only looks like an escape because the backslash in front of it is
        // itself escaped, and escapes written with upper-case hex digits)
        const UNITS: [&str; 23] = ["\\z", "\\ ", "\\\t", "\\n", "\\\n", "\\\\", "\\\"", "\\'", "\\0", "\\65", "\\x41", "\\u{41}", "\\q", "\"", "'", " ", "a", "1", "\n", "\\\\xAB", "\\\\u{FEED}", "\\xAB", "\\u{FEED}"];
        let n = if tier == Tier::Thorough { 4 } else { 3 };
        let mut layer: Vec<String> = vec![String::new()];
        for _ in 0..n {
            let mut next = Vec::new();
            for b in &layer {
                for u in UNITS {
                    next.push(format!("{b}{u}"));
                }
            }
            all.extend(next.iter().cloned());
            layer = next;
        }
        all.sort();
        all.dedup();
    }
    let syntaxes = [Syntax::Lua51, Syntax::Lua54, Syntax::Luau];
    let results = par_map(&all, |_, body| {
        let mut local = Stats::default();
        let mut fails: Vec<(Case, String)> = Vec::new();
        for (lit, form) in string_forms(body, tier == Tier::Thorough) {
            let program = string_program(&lit);
            for syn in syntaxes {
                if oracle::parses(&program, syn).is_err() {
                    local.skip("literal rejected by the parser");
                    continue;
                }
                for q in QUOTES {
                    for le in [Endings::Unix, Endings::Windows] {
                        let cfg = Cfg { quote_style: q, line_endings: le, ..Cfg::default_for(syn) };
                        let case = Case::new(program.clone(), cfg);
                        let (out, _) = run_format(&case);
                        match oracle::c04(&case, &out) {
                            Verdict::Pass { nontrivial } => {
                                local.count("E2-strings");
                                local.label(&format!("form:{form}"));
                                if nontrivial {
                                    local.nontrivial.insert(case.hash64());
                                    if local.samples.is_empty() && body.len() >= 2 && body.contains('\\') {
                                        if let Outcome::Ok(o) = &out {
                                            local.samples.push(json!({ "origin": "E2-strings", "literal": lit, "config": case.cfg.label(), "first_output_line": o.lines().next() }));
                                        }
                                    }
                                }
                            }
                            Verdict::Skip(w) => local.skip(w),
                            Verdict::Fail(d) => {
                                local.count("E2-strings");
                                if fails.len() < 3 {
                                    fails.push((case, d));
                                }
                            }
                        }
                    }
                }
            }
        }
        (local, fails)
    });
    let mut shown = 0;
    for (s, fails) in results {
        stats.merge(s);
        for (case, d) in fails {
            if shown < 10 {
                rep.violation(crate::e1::replay_value("C04", &case, &d, "E2-strings"), "E2");
                shown += 1;
            } else {
                rep.violations += 1;
            }
        }
    }
}

// ------------------------------------------------------------------------------------------
// C04 numbers

pub fn number_spellings(syn: Syntax) -> Vec<String> {
    let mut v: Vec<String> = Vec::new();
    for int in ["", "0", "7", "12", "007"] {
        for frac in ["", ".", ".0", ".5", ".25"] {
            if int.is_empty() && (frac.is_empty() || frac == ".") {
                continue;
            }
            for exp in ["", "e1", "E1", "e+2", "e-2", "E+10"] {
                v.push(format!("{int}{frac}{exp}"));
            }
        }
    }
    for pre in ["0x", "0X"] {
        for int in ["", "0", "f", "A1", "ff", "DEADbeef"] {
            for frac in ["", ".", ".8", ".C"] {
                if int.is_empty() && (frac.is_empty() || frac == ".") {
                    continue;
                }
                for exp in ["", "p1", "P-1", "p+2"] {
                    v.push(format!("{pre}{int}{frac}{exp}"));
                }
            }
        }
    }
    for big in ["9007199254740993", "9223372036854775807", "9223372036854775808", "18446744073709551615", "100000000000000000000", "0xffffffffffffffff", "0x7fffffffffffffff", "0xffffffffffffffffffffff", "1e308", "1e309", "4.9e-324"] {
        v.push(big.to_string());
    }
    if syn == Syntax::Luau {
        for s in ["1_000", "1_0.5_0", "0b101", "0B1_0", "0x_ff", "0xf_f", "1__0", "1e1_0", "0b0"] {
            v.push(s.to_string());
        }
    }
    if syn == Syntax::LuaJIT {
        let base: Vec<String> = ["1", "42", "0x10", "0xff", "1.5", ".5", "2e3"].iter().map(|s| s.to_string()).collect();
        for b in base {
            for suf in ["LL", "ll", "ULL", "ull", "uLL", "i", "I"] {
                v.push(format!("{b}{suf}"));
            }
        }
    }
    v
}

pub fn c04_numbers(rep: &mut Reporter, stats: &mut Stats, _tier: Tier, _findings: &[Finding]) {
    let mut items: Vec<(Syntax, String)> = Vec::new();
    for syn in Syntax::ALL {
        for n in number_spellings(syn) {
            items.push((syn, n));
        }
    }
    let results = par_map(&items, |_, (syn, n)| {
        let mut local = Stats::default();
        let mut fails: Vec<(Case, String)> = Vec::new();
        let program = format!("x = {n}\ny = -{n}\nt = {{ [{n}] = {n} }}\nf({n}, a - {n})\n");
        if oracle::parses(&program, *syn).is_err() {
            local.skip("literal rejected by the parser");
            return (local, fails);
        }
        for verify in [false, true] {
            for width in [120usize, 1] {
                let mut case = Case::new(program.clone(), Cfg { column_width: width, ..Cfg::default_for(*syn) });
                case.verify = verify;
                let (out, _) = run_format(&case);
                // panics and verification errors are C07's subject; here only returned outputs are judged
                let v = oracle::c04(&case, &out);
                match v {
                    Verdict::Pass { nontrivial } => {
                        local.count("E2-numbers");
                        if nontrivial {
                            local.nontrivial.insert(case.hash64());
                        }
                        if local.samples.is_empty() && nontrivial {
                            if let Outcome::Ok(o) = &out {
                                local.samples.push(json!({ "origin": "E2-numbers", "literal": n, "syntax": syn.name(), "first_output_line": o.lines().next() }));
                            }
                        }
                    }
                    Verdict::Skip(w) => local.skip(w),
                    Verdict::Fail(d) => {
                        local.count("E2-numbers");
                        fails.push((case, d));
                    }
                }
            }
        }
        (local, fails)
    });
    let mut n_samples = 0;
    for (mut s, fails) in results {
        if n_samples >= 2 {
            s.samples.clear();
        }
        n_samples += s.samples.len();
        stats.merge(s);
        for (case, d) in fails.into_iter().take(1) {
            rep.violation(crate::e1::replay_value("C04", &case, &d, "E2-numbers"), "E2");
        }
    }
}

pub fn c04_extra(rep: &mut Reporter, stats: &mut Stats, tier: Tier, findings: &[Finding]) {
    c04_strings(rep, stats, tier, findings);
    c04_numbers(rep, stats, tier, findings);
}

// ------------------------------------------------------------------------------------------
// C05 parentheses

#[derive(Clone, Debug)]
enum Ex {
    Leaf(usize),
    Un(&'static str, Box<Ex>),
    Bin(&'static str, Box<Ex>, Box<Ex>),
    Paren(Box<Ex>),
    /// Luau type assertion `x :: T`
    Assert(Box<Ex>),
}

fn render(e: &Ex, leaves: &[String], out: &mut String) {
    match e {
        Ex::Leaf(i) => out.push_str(&leaves[*i % leaves.len()]),
        Ex::Un(op, x) => {
            out.push_str(op);
            if *op == "not" {
                out.push(' ');
            } else if *op == "-" {
                // avoid writing `--`
                let mut inner = String::new();
                render(x, leaves, &mut inner);
                if inner.starts_with('-') {
                    out.push(' ');
                }
                out.push_str(&inner);
                return;
            }
            render(x, leaves, out);
        }
        Ex::Bin(op, a, b) => {
            render(a, leaves, out);
            out.push(' ');
            out.push_str(op);
            out.push(' ');
            render(b, leaves, out);
        }
        Ex::Paren(x) => {
            out.push('(');
            render(x, leaves, out);
            out.push(')');
        }
        Ex::Assert(x) => {
            render(x, leaves, out);
            out.push_str(" :: T");
        }
    }
}

fn binops(syn: Syntax) -> Vec<&'static str> {
    let mut v = vec!["or", "and", "<", "==", "..", "+", "*", "^"];
    if syn.has_53_ops() {
        v.extend(["//", "|", "~", "&", "<<"]);
    }
    if syn == Syntax::Luau {
        v.push("//");
    }
    v
}
fn unops(syn: Syntax) -> Vec<&'static str> {
    let mut v = vec!["-", "not", "#"];
    if syn.has_53_ops() {
        v.push("~");
    }
    v
}

/// parenthesisation variants of a sub-expression: bare, wrapped once, wrapped twice
fn wraps(e: Ex, double: bool) -> Vec<Ex> {
    let mut v = vec![e.clone(), Ex::Paren(Box::new(e.clone()))];
    if double {
        v.push(Ex::Paren(Box::new(Ex::Paren(Box::new(e)))));
    }
    v
}

/// all skeletons with up to `max_ops` operators; leaves numbered left to right
fn skeletons(syn: Syntax, max_ops: usize, extended: bool) -> Vec<Ex> {
    let b = binops(syn);
    let u = unops(syn);
    let l = |i| Ex::Leaf(i);
    let mut out: Vec<Ex> = Vec::new();
    // one operator
    for op in &b {
        for x in wraps(l(0), false) {
            for y in wraps(l(1), false) {
                out.push(Ex::Bin(op, Box::new(x.clone()), Box::new(y)));
            }
        }
    }
    for op in &u {
        for x in wraps(l(0), false) {
            out.push(Ex::Un(op, Box::new(x)));
        }
    }
    if max_ops >= 2 {
        for o1 in &b {
            for o2 in &b {
                let inner = Ex::Bin(o2, Box::new(l(0)), Box::new(l(1)));
                for w in wraps(inner.clone(), true) {
                    out.push(Ex::Bin(o1, Box::new(w), Box::new(l(2))));
                }
                let inner = Ex::Bin(o2, Box::new(l(1)), Box::new(l(2)));
                for w in wraps(inner, true) {
                    out.push(Ex::Bin(o1, Box::new(l(0)), Box::new(w)));
                }
            }
            for o2 in &u {
                let inner = Ex::Un(o2, Box::new(l(0)));
                for w in wraps(inner, true) {
                    out.push(Ex::Bin(o1, Box::new(w.clone()), Box::new(l(1))));
                    out.push(Ex::Bin(o1, Box::new(l(1)), Box::new(w)));
                }
            }
        }
        for o1 in &u {
            for o2 in &b {
                let inner = Ex::Bin(o2, Box::new(l(0)), Box::new(l(1)));
                for w in wraps(inner, true) {
                    out.push(Ex::Un(o1, Box::new(w)));
                }
            }
            for o2 in &u {
                let inner = Ex::Un(o2, Box::new(l(0)));
                for w in wraps(inner, true) {
                    out.push(Ex::Un(o1, Box::new(w)));
                }
            }
        }
    }
    if max_ops >= 2 && extended {
        // a unary operand inside a binary operand of another binary operator (`a + (-x) ^ 2`, `(not a) == b or c`)
        for o1 in &b {
            for o2 in &b {
                for un in &u {
                    for w in wraps(Ex::Un(un, Box::new(l(1))), false) {
                        let inner_l = Ex::Bin(o2, Box::new(w.clone()), Box::new(l(2)));
                        let inner_r = Ex::Bin(o2, Box::new(l(2)), Box::new(w.clone()));
                        out.push(Ex::Bin(o1, Box::new(l(0)), Box::new(inner_l.clone())));
                        out.push(Ex::Bin(o1, Box::new(inner_l), Box::new(l(0))));
                        out.push(Ex::Bin(o1, Box::new(l(0)), Box::new(inner_r.clone())));
                        out.push(Ex::Bin(o1, Box::new(inner_r), Box::new(l(0))));
                    }
                }
            }
        }
    }
    if syn == Syntax::Luau {
        // the operand of a type assertion, and an assertion as an operand: `(-a) :: T`, `(a + b) :: T`, `-(a :: T)`,
        // `(a :: T) + b`, `a + (-b) :: T`, ...
        let mut operands: Vec<Ex> = vec![l(0)];
        for un in &u {
            operands.push(Ex::Un(un, Box::new(l(0))));
        }
        for op in &b {
            operands.push(Ex::Bin(op, Box::new(l(0)), Box::new(l(1))));
        }
        for x in operands {
            for w in wraps(x, true) {
                let a = Ex::Assert(Box::new(w));
                for wa in wraps(a, false) {
                    out.push(wa.clone());
                    for un in &u {
                        out.push(Ex::Un(un, Box::new(wa.clone())));
                    }
                    for op in &b {
                        out.push(Ex::Bin(op, Box::new(wa.clone()), Box::new(l(2))));
                        out.push(Ex::Bin(op, Box::new(l(2)), Box::new(wa.clone())));
                    }
                }
            }
        }
    }
    if max_ops >= 3 {
        // three operators: left-deep, right-deep and balanced shapes with parentheses on the inner nodes
        let ops3: Vec<&'static str> = b.iter().copied().filter(|o| matches!(*o, "or" | "and" | "==" | ".." | "+" | "*" | "^" | "|")).collect();
        for o1 in &ops3 {
            for o2 in &ops3 {
                for o3 in &ops3 {
                    let ab = Ex::Bin(o3, Box::new(l(0)), Box::new(l(1)));
                    for w1 in wraps(ab.clone(), false) {
                        let abc = Ex::Bin(o2, Box::new(w1), Box::new(l(2)));
                        for w2 in wraps(abc, false) {
                            out.push(Ex::Bin(o1, Box::new(w2), Box::new(l(3))));
                        }
                    }
                    let cd = Ex::Bin(o3, Box::new(l(2)), Box::new(l(3)));
                    for w1 in wraps(cd.clone(), false) {
                        let bcd = Ex::Bin(o2, Box::new(l(1)), Box::new(w1));
                        for w2 in wraps(bcd, false) {
                            out.push(Ex::Bin(o1, Box::new(l(0)), Box::new(w2)));
                        }
                    }
                    for wl in wraps(ab.clone(), false) {
                        for wr in wraps(cd.clone(), false) {
                            out.push(Ex::Bin(o1, Box::new(wl.clone()), Box::new(wr)));
                        }
                    }
                    for un in ["-", "not"] {
                        let ua = Ex::Un(un, Box::new(l(0)));
                        for w in wraps(ua, false) {
                            out.push(Ex::Bin(o1, Box::new(Ex::Bin(o2, Box::new(w), Box::new(l(1)))), Box::new(l(2))));
                        }
                    }
                }
            }
        }
    }
    out
}

const CONTEXTS: [(&str, &str, &str); 16] = [
    ("local", "local v = ", "\n"),
    ("assign", "v = ", "\n"),
    ("return", "return ", "\n"),
    ("return-last", "return a, ", "\n"),
    ("if", "if ", " then\nend\n"),
    ("while", "while ", " do\nend\n"),
    ("until", "repeat\nuntil ", "\n"),
    ("arg", "f(", ")\n"),
    ("arg-last", "f(a, ", ")\n"),
    ("field-last", "t = { a, ", " }\n"),
    ("field-named", "t = { k = ", " }\n"),
    ("field-key", "t = { [", "] = 1 }\n"),
    ("index", "v = t[", "]\n"),
    ("prefix-call", "(", ")()\n"),
    ("prefix-index", "v = (", ").x\n"),
    ("method-arg", "obj:method(", ")\n"),
];

fn special_leaves(syn: Syntax) -> Vec<&'static str> {
    let mut v = vec![
        "1",
        "\"s\"",
        "f()",
        "...",
        "(f())",
        "(...)",
        "obj:m()",
        "t.x",
        "{}",
        "function() end",
        // truncating parentheses around a call that is too wide for a line of its own at the narrower width classes
        "(someFunctionName(argumentNumberOne, argumentNumberTwo, 3, true))",
        "(object.field:methodName(argumentNumberOne, { 1, 2, 3 }))",
    ];
    if syn == Syntax::Luau {
        v.extend(["x :: T", "(x :: T)", "(if c then a else b)", "if c then a else b"]);
    }
    v
}

fn name_of(i: usize, len: usize) -> String {
    let base = ["a", "b", "c", "d"][i % 4];
    if len <= 1 {
        base.to_string()
    } else {
        let mut s = String::from(base);
        while s.len() < len {
            s.push_str("Name");
        }
        s.truncate(len);
        s
    }
}

pub fn c05_extra(rep: &mut Reporter, stats: &mut Stats, tier: Tier, _findings: &[Finding]) {
    // build the list of (syntax, expression text) once, then cross with contexts, name lengths and widths
    let max_ops = if tier == Tier::Thorough { 3 } else { 2 };
    let syntaxes: &[Syntax] = if tier == Tier::Thorough { &[Syntax::Lua51, Syntax::Lua53, Syntax::Luau] } else { &[Syntax::Lua51, Syntax::Lua54, Syntax::Luau] };
    let mut items: Vec<(Syntax, Ex, usize, Option<(usize, &'static str)>)> = Vec::new();
    let mut always: Vec<(Syntax, Ex, usize, Option<(usize, &'static str)>)> = Vec::new();
    for &syn in syntaxes {
        let sk = skeletons(syn, max_ops, true);
        let specials = special_leaves(syn);
        for e in sk.iter() {
            for len in [1usize, 8, 30] {
                items.push((syn, e.clone(), len, None));
            }
        }
        // the bare special leaves: always evaluated, whatever the stride (a truncating `(f())` / `(...)` matters most when
        // it is the whole argument / value)
        for sp in specials.iter() {
            always.push((syn, Ex::Leaf(0), 8, Some((0, *sp))));
        }
        // one leaf replaced by a special leaf (skeletons with up to two operators)
        for e in skeletons(syn, 2, false).iter() {
            for pos in 0..3 {
                for sp in specials.iter() {
                    items.push((syn, e.clone(), 8, Some((pos, *sp))));
                }
            }
        }
    }
    // quick: a fixed stride keeps the run short; thorough: everything
    let stride = if tier == Tier::Thorough { 1 } else { 11 };
    if stride == 1 {
        stats.exhaustive = true;
    }
    let mut items: Vec<_> = items.into_iter().enumerate().filter(|(i, _)| i % stride == 0).map(|(_, x)| x).collect();
    items.extend(always);
    stats.notes.push(format!("C05 enumeration: {} (expression, name length, special leaf) items x {} contexts x 6 width classes; stride {}", items.len(), CONTEXTS.len(), stride));
    let results = par_map(&items, |_, (syn, e, len, special)| {
        let mut local = Stats::default();
        let mut fails: Vec<(Case, String)> = Vec::new();
        let mut leaves: Vec<String> = (0..4).map(|i| name_of(i, *len)).collect();
        if let Some((pos, sp)) = special {
            leaves[*pos] = sp.to_string();
        }
        let mut expr = String::new();
        render(e, &leaves, &mut expr);
        for (cname, pre, post) in CONTEXTS.iter() {
            let program = format!("{pre}{expr}{post}");
            if oracle::parses(&program, *syn).is_err() {
                local.skip("expression rejected by the parser in this context");
                continue;
            }
            // natural width = longest line at infinite width
            let base = Case::new(program.clone(), Cfg { column_width: usize::MAX, ..Cfg::default_for(*syn) });
            let natural = match run_format(&base).0 {
                Outcome::Ok(q) => q.lines().map(|l| l.chars().map(|c| if c == '\t' { 4 } else { 1 }).sum::<usize>()).max().unwrap_or(1),
                _ => 40,
            };
            let mut widths = vec![usize::MAX, natural, natural.saturating_sub(1).max(1), (natural / 2).max(1), (natural / 3).max(1), 1];
            widths.dedup();
            for w in widths {
                let case = Case::new(program.clone(), Cfg { column_width: w, ..Cfg::default_for(*syn) });
                let (out, _) = run_format(&case);
                // grouping, truncation markers, unary minus and assertions are all part of N; validity of the output too
                let v = match oracle::c01(&case, &out) {
                    Verdict::Fail(d) => Verdict::Fail(d),
                    _ => oracle::c02(&case, &out),
                };
                match v {
                    Verdict::Pass { .. } => {
                        local.count("E2-parentheses");
                        local.label(&format!("context:{cname}"));
                        let removed = match &out {
                            Outcome::Ok(q) => q.matches('(').count() < program.matches('(').count(),
                            _ => false,
                        };
                        if removed {
                            local.nontrivial.insert(case.hash64());
                            if local.samples.is_empty() && w != usize::MAX {
                                if let Outcome::Ok(q) = &out {
                                    local.samples.push(json!({ "origin": "E2-parentheses", "input": program, "width": w, "syntax": syn.name(), "output": q }));
                                }
                            }
                        }
                        if let Outcome::Ok(q) = &out {
                            if q.lines().count() > program.lines().count() {
                                local.label("layout:wrapped");
                            } else {
                                local.label("layout:single-line");
                            }
                        }
                    }
                    Verdict::Skip(why) => local.skip(why),
                    Verdict::Fail(d) => {
                        local.count("E2-parentheses");
                        if fails.is_empty() {
                            fails.push((case, d));
                        }
                    }
                }
            }
        }
        (local, fails)
    });
    let mut shown = 0;
    let mut kept_samples = 0;
    for (mut s, fails) in results {
        if kept_samples >= 3 {
            s.samples.clear();
        }
        kept_samples += s.samples.len();
        stats.merge(s);
        for (case, d) in fails {
            if shown < 12 {
                rep.violation(crate::e1::replay_value("C05", &case, &d, "E2-parentheses"), "E2");
                shown += 1;
            } else {
                rep.violations += 1;
            }
        }
    }
}

// ------------------------------------------------------------------------------------------
// C06 boundary enumeration: one statement, every list-carrying statement kind, operands in both spellings of a call
// with a single string / table argument, compact and padded spacing, at every width from three below to three above
// the width of the source line and of the formatted line

const C06_OPERANDS: [&str; 12] = [
    "alpha",
    "first(a, b, c)",
    "first(a,b,c)",
    "name(\"str\")",
    "name \"str\"",
    "build({ 1, 2 })",
    "build { 1, 2 }",
    "obj:method(\"text\")",
    "obj:method \"text\"",
    "(alpha + beta)",
    "alpha  +  beta * gamma",
    "#list",
];

// (`if A == B then` / `while A and B do` are not listed: a hanging condition measures the source text of its operands,
// known finding KF-layout-instability, so compactly written operands fail below the natural width on the unchanged tree)
const C06_TEMPLATES: [(&str, &str); 16] = [
    // a blank line (or a plain line break) behind the separator of a list that fits on one line
    ("call-blank-line", "call({A},\n\n\t{B})\n"),
    ("method-blank-line", "object:method({A},\n\n\t{B})\n"),
    ("call-line-break", "call({A},\n\t{B})\n"),
    // (the same shape in a table constructor fails on the unchanged tree - KF-blank-line-in-statement - and is left out)
    ("return", "local function pair()\n\treturn {A}, {B}\nend\n"),
    ("return-top", "return {A}, {B}\n"),
    ("local", "local one, two = {A}, {B}\n"),
    ("assign", "one, two = {A}, {B}\n"),
    ("call", "call({A}, {B})\n"),
    ("table", "local t = { {A}, {B} }\n"),
    ("field", "local t = { key = {A}, other = {B} }\n"),
    ("numeric-for", "for i = {A}, {B} do\nend\n"),
    ("generic-for", "for k, v in {A}, {B} do\nend\n"),
    ("concat", "local s = {A} .. {B}\n"),
    // a line comment behind the last field of a multi-line table, written without / with the separator
    ("field-comment", "local t = {\n\tfirst = 1,\n\tkey = {A} + {B} -- a note about this field\n}\n"),
    ("field-comment-comma", "local t = {\n\tfirst = 1,\n\tkey = {A} + {B}, -- a note about this field\n}\n"),
    ("arg-comment", "call(\n\tfirst,\n\t{A} + {B} -- a note about this argument\n)\n"),
];

pub fn c06_extra(rep: &mut Reporter, stats: &mut Stats, tier: Tier, _findings: &[Finding]) {
    use crate::cfg::{CALLPARENS, COLLAPSE};
    let mut items: Vec<(&'static str, String)> = Vec::new();
    for (name, tpl) in C06_TEMPLATES {
        for a in C06_OPERANDS {
            for b in C06_OPERANDS {
                items.push((name, tpl.replace("{A}", a).replace("{B}", b)));
                if tier == Tier::Thorough {
                    // padded spelling of the separators
                    items.push((name, tpl.replace("{A}, ", "{A}  ,    ").replace("{A}", a).replace("{B}", b)));
                }
            }
        }
    }
    stats.exhaustive = true;
    let results = par_map(&items, |_, (name, program)| {
        let mut local = Stats::default();
        let mut fails: Vec<(Case, String)> = Vec::new();
        let syn = Syntax::Lua51;
        for cp in CALLPARENS {
            for col in [COLLAPSE[0], COLLAPSE[3]] {
                let base = Cfg { call_parentheses: cp, collapse: col, column_width: usize::MAX, ..Cfg::default_for(syn) };
                let formatted = match run_format(&Case::new(program.clone(), base)).0 {
                    Outcome::Ok(q) => q,
                    _ => {
                        local.skip("template does not format");
                        continue;
                    }
                };
                let width_of = |t: &str| t.lines().map(|l| l.chars().map(|c| if c == '\t' { 4 } else { 1 }).sum::<usize>()).max().unwrap_or(1);
                let (ws, wf) = (width_of(program), width_of(&formatted));
                let mut widths: Vec<usize> = Vec::new();
                for w in [ws, wf] {
                    for d in 0..7usize {
                        widths.push((w + d).saturating_sub(3).max(1));
                    }
                }
                widths.sort();
                widths.dedup();
                if name.ends_with("-blank-line") || name.ends_with("-line-break") {
                    // (near the boundary these shapes are re-decided by the second pass on the unchanged tree as well - the
                    // D9 reason; with room to spare the first pass must already be final)
                    widths = vec![wf + 8, 120, usize::MAX];
                }
                for w in widths {
                    let case = Case::new(program.clone(), Cfg { column_width: w, ..base });
                    let (out, _) = run_format(&case);
                    match oracle::c06(&case, &out) {
                        Verdict::Pass { nontrivial } => {
                            local.count("E2-boundary");
                            local.label(&format!("statement:{name}"));
                            if nontrivial {
                                local.nontrivial.insert(case.hash64());
                            }
                        }
                        Verdict::Skip(why) => local.skip(why),
                        Verdict::Fail(d) => {
                            local.count("E2-boundary");
                            local.label(&format!("failed:{name}"));
                            if fails.len() < 2 {
                                fails.push((case, d));
                            }
                        }
                    }
                }
            }
        }
        (local, fails)
    });
    let mut shown = 0;
    for (s, fails) in results {
        stats.merge(s);
        for (case, d) in fails {
            if shown < 12 {
                rep.violation(crate::e1::replay_value("C06", &case, &d, "E2-boundary"), "E2");
                shown += 1;
            } else {
                rep.violations += 1;
            }
        }
    }
}
