//! Command-line properties C13 .. C18, C20: generators and models.

use crate::cli::{gen_optcfg, lib_format, messy_program, CliCase, CliRun, OptCfg};
use crate::clirun::CliProp;
use crate::lex::Syntax;
use crate::oracle::Verdict;
use crate::tape::Tape;
use std::collections::{BTreeMap, BTreeSet};
use stylua_lib as sl;

// ------------------------------------------------------------------------------------------
// argv model

#[derive(Debug, Default, Clone)]
pub struct Args {
    pub check: bool,
    pub verify: bool,
    pub output_format: String,
    pub opts: OptCfg,
    pub files: Vec<String>,
    pub globs: Option<Vec<String>>,
    pub respect_ignores: bool,
    pub allow_hidden: bool,
    pub config_path: Option<String>,
    pub search_parents: bool,
    pub no_editorconfig: bool,
    pub stdin_filepath: Option<String>,
    pub range: (Option<usize>, Option<usize>),
}

fn parse_enum<T: Copy + std::fmt::Debug>(vals: &[T], s: &str) -> Option<T> {
    vals.iter().copied().find(|v| format!("{v:?}").eq_ignore_ascii_case(s))
}

pub fn parse_args(argv: &[String]) -> Args {
    use crate::cfg::*;
    let mut a = Args { output_format: "standard".into(), ..Default::default() };
    let mut i = 0;
    let mut only_files = false;
    while i < argv.len() {
        let arg = argv[i].as_str();
        let mut val = || {
            i += 1;
            argv.get(i).cloned().unwrap_or_default()
        };
        if only_files {
            a.files.push(arg.to_string());
            i += 1;
            continue;
        }
        match arg {
            "--" => only_files = true,
            "--check" | "-c" => a.check = true,
            "--verify" => a.verify = true,
            "--output-format" => a.output_format = val().to_ascii_lowercase(),
            "--color" | "--num-threads" => {
                val();
            }
            "--range-start" => a.range.0 = val().parse().ok(),
            "--range-end" => a.range.1 = val().parse().ok(),
            "--glob" | "-g" => a.globs.get_or_insert_with(Vec::new).push(val()),
            "--respect-ignores" => a.respect_ignores = true,
            "--allow-hidden" | "-a" => a.allow_hidden = true,
            "--config-path" | "-f" => a.config_path = Some(val()),
            "--search-parent-directories" | "-s" => a.search_parents = true,
            "--no-editorconfig" => a.no_editorconfig = true,
            "--stdin-filepath" => a.stdin_filepath = Some(val()),
            "--sort-requires" => a.opts.sort_requires = Some(true),
            "--syntax" => a.opts.syntax = Syntax::from_name(&val()),
            "--column-width" => a.opts.column_width = val().parse().ok(),
            "--indent-width" => a.opts.indent_width = val().parse().ok(),
            "--line-endings" => a.opts.line_endings = parse_enum(&[Endings::Unix, Endings::Windows], &val()),
            "--indent-type" => a.opts.indent_type = parse_enum(&[Indent::Tabs, Indent::Spaces], &val()),
            "--quote-style" => a.opts.quote_style = parse_enum(&QUOTES, &val()),
            "--call-parentheses" => a.opts.call_parentheses = parse_enum(&CALLPARENS, &val()),
            "--collapse-simple-statement" => a.opts.collapse = parse_enum(&COLLAPSE, &val()),
            "--space-after-function-names" => a.opts.space_after = parse_enum(&SPACEAFTER, &val()),
            "--verbose" | "-v" => {}
            _ => a.files.push(arg.to_string()),
        }
        i += 1;
    }
    a
}

fn join_rel(cwd: &str, p: &str) -> String {
    // path of `p` (relative to cwd, or absolute below `$ROOT`) relative to the sandbox root, normalised (no `.` / `..`)
    let (cwd, p) = match p.strip_prefix("$ROOT/") {
        Some(rest) => ("", rest),
        None => (cwd, p),
    };
    let mut parts: Vec<&str> = cwd.split('/').filter(|s| !s.is_empty()).collect();
    for seg in p.split('/') {
        match seg {
            "" | "." => {}
            ".." => {
                parts.pop();
            }
            s => parts.push(s),
        }
    }
    parts.join("/")
}

fn is_lua_name(name: &str) -> bool {
    name.ends_with(".lua") || name.ends_with(".luau")
}

/// Files selected by plain arguments in a tree without ignore files, hidden entries or globs:
/// (root-relative path -> path as printed), plus whether an argument names a missing path
pub fn simple_selection(case: &CliCase, args: &Args) -> (BTreeMap<String, String>, bool) {
    let mut sel = BTreeMap::new();
    let mut missing = false;
    for f in &args.files {
        let rel = join_rel(&case.cwd, f);
        if case.files.contains_key(&rel) {
            sel.entry(rel).or_insert_with(|| f.clone());
            continue;
        }
        let prefix = if rel.is_empty() { String::new() } else { format!("{rel}/") };
        let is_dir = rel.is_empty() || case.files.keys().any(|k| k.starts_with(&prefix)) || case.dirs.iter().any(|d| d == &rel || d.starts_with(&prefix));
        if !is_dir {
            missing = true;
            continue;
        }
        for k in case.files.keys() {
            if k.starts_with(&prefix) {
                let inner = &k[prefix.len()..];
                if inner.split('/').any(|seg| seg.starts_with('.')) {
                    continue;
                }
                if is_lua_name(k) {
                    let printed = if f == "." { format!("./{inner}") } else { format!("{}/{inner}", f.trim_end_matches('/')) };
                    sel.entry(k.clone()).or_insert(printed);
                }
            }
        }
    }
    (sel, missing)
}

#[derive(Debug, Clone, PartialEq, Eq)]
pub enum FileClass {
    /// cannot be read as UTF-8 or does not parse
    Error,
    Formatted,
    /// formatted text differs from the content
    Differs(String),
}

pub fn classify_file(bytes: &[u8], config: sl::Config) -> FileClass {
    classify_file_verify(bytes, config, false)
}

pub fn classify_file_verify(bytes: &[u8], config: sl::Config, verify: bool) -> FileClass {
    classify_file_full(bytes, config, (None, None), verify)
}

/// With `verify`, the expectation that verification fails does not rest on the library's verifier alone: when the
/// text formatted WITHOUT verification has another semantic token sequence than the input (statements re-ordered by
/// require sorting, say), verification has to reject it whatever the range.
pub fn classify_file_full(bytes: &[u8], config: sl::Config, range: (Option<usize>, Option<usize>), verify: bool) -> FileClass {
    if let (true, Ok(s)) = (verify, std::str::from_utf8(bytes)) {
        if let Some(q0) = crate::cli::lib_format_full(s, config, range, false) {
            let syn = Syntax::Lua51;
            if let (Ok(a), Ok(b)) = (crate::lex::lex(s, syn), crate::lex::lex(&q0, syn)) {
                if crate::lex::t_sequence(s, &a, syn) != crate::lex::t_sequence(&q0, &b, syn) {
                    return FileClass::Error;
                }
            }
        }
    }
    match std::str::from_utf8(bytes) {
        Err(_) => FileClass::Error,
        Ok(s) => match crate::cli::lib_format_full(s, config, range, verify) {
            None => FileClass::Error,
            Some(q) if q == s => FileClass::Formatted,
            Some(q) => FileClass::Differs(q),
        },
    }
}

fn faults(case: &CliCase) -> BTreeMap<String, String> {
    let mut m = BTreeMap::new();
    if let Some(spec) = case.env.get("STYLUA_VERIF_FAULT") {
        for e in spec.split(',') {
            if let Some((f, k)) = e.split_once('=') {
                m.insert(f.to_string(), k.to_string());
            }
        }
    }
    m
}

fn basename(p: &str) -> &str {
    p.rsplit('/').next().unwrap_or(p)
}

// ------------------------------------------------------------------------------------------
// tree generator shared by C13 / C14 / C18

const DIRS: [&str; 4] = ["", "sub/", "sub/deep/", "other/"];

struct TreeSpec {
    case: CliCase,
    names: Vec<String>,
}

/// thousands of already formatted lines with one unformatted line (even k) or one superfluous blank line (odd k) in
/// the middle; 1 300 to 12 500 lines
pub fn long_file_one_change(k: usize) -> String {
    let n = [1300usize, 2600, 1300, 12_500, 1300, 2600, 1300, 12_500][k % 8];
    let mut s = String::with_capacity(n * 20);
    for i in 0..n {
        if i == n / 2 {
            if (k / 8) % 2 == 0 {
                s.push_str("local   changed  =  1\n");
            } else {
                s.push_str("\n\n");
            }
        }
        s.push_str(&format!("local v{i} = {i}\n"));
    }
    s
}

fn gen_tree(t: &mut Tape, labels: &mut Vec<&'static str>, with_errors: bool) -> TreeSpec {
    let mut case = CliCase::default();
    // stop every configuration search at the sandbox root
    case.files.insert(".editorconfig".into(), b"root = true\n".to_vec());
    let opts = if t.chance(100) { gen_optcfg(t, false) } else { OptCfg::default() };
    let config = opts.apply(sl::Config::default());
    let n = 1 + t.pick(6);
    let mut names = Vec::new();
    for i in 0..n {
        let dir = DIRS[t.pick(DIRS.len())];
        let ext = match t.pick(8) {
            0 => ".luau",
            1 => ".txt",
            _ => ".lua",
        };
        let mut name = format!("{dir}f{i}{ext}");
        // now and then a sibling of the previous file: same stem with the other Lua extension, or the same name in
        // another letter case (distinct files on a case-sensitive file system)
        if let (Some(prev), 0) = (names.last().cloned(), t.pick(6)) {
            let prev: String = prev;
            let sibling = if let Some(stem) = prev.strip_suffix(".luau") {
                format!("{stem}.lua")
            } else if let Some(stem) = prev.strip_suffix(".lua") {
                if t.chance(128) {
                    format!("{stem}.luau")
                } else {
                    match stem.rsplit_once('/') {
                        Some((d, b)) => format!("{d}/{}.lua", b.to_uppercase()),
                        None => format!("{}.lua", stem.to_uppercase()),
                    }
                }
            } else {
                name.clone()
            };
            if !case.files.contains_key(&sibling) {
                name = sibling;
                labels.push("file:sibling-name");
            }
        }
        let class = t.pick(if with_errors { 16 } else { 12 });
        // classes 5, 6, 7 and 13 only exist with errors: remap so that the others are the valid-file classes
        let class = if with_errors { class } else { [0, 1, 2, 3, 4, 8, 9, 10, 11, 12, 14, 15][class] };
        let variant = t.pick(8);
        let messy = messy_program(i + 10 * t.pick(4));
        let content: Vec<u8> = match class {
            0 | 1 => lib_format(&messy, config).unwrap_or(messy).into_bytes(),
            2 | 3 | 4 => messy.into_bytes(),
            5 => {
                labels.push("file:unparseable");
                format!("local x{i} = = 1\n").into_bytes()
            }
            6 => {
                labels.push("file:invalid-utf8");
                let mut v = format!("local s{i} = \"").into_bytes();
                v.extend_from_slice(&[0xff, 0xfe, 0x80]);
                v.extend_from_slice(b"\"\n");
                v
            }
            7 => {
                labels.push("file:crlf-unformatted");
                messy.replace('\n', "\r\n").into_bytes()
            }
            8 => {
                // formatted, but with the other line ending convention: differs in line terminators only
                labels.push("file:formatted-other-line-endings");
                let f = lib_format(&messy, config).unwrap_or(messy);
                if f.contains("\r\n") {
                    f.replace("\r\n", "\n").into_bytes()
                } else {
                    f.replace('\n', "\r\n").into_bytes()
                }
            }
            9 => {
                // formatted, but without the final line ending
                labels.push("file:formatted-no-final-newline");
                let f = lib_format(&messy, config).unwrap_or(messy);
                f.trim_end_matches(|c| c == '\n' || c == '\r').to_string().into_bytes()
            }
            10 => {
                labels.push("file:empty");
                Vec::new()
            }
            13 => {
                // a byte order mark in front of formatted code: not Lua text for the parser
                labels.push("file:bom");
                let f = lib_format(&messy, config).unwrap_or(messy);
                format!("{}{f}", '\u{feff}').into_bytes()
            }
            15 => {
                // requires out of order: with require sorting the statements are re-ordered (and `--verify` rejects that)
                labels.push("file:requires-out-of-order");
                format!("local zz{i} = require(\"zz\")\nlocal aa{i} = require(\"aa\")\nlocal mm = require(\"mm\")\n\n{messy}").into_bytes()
            }
            14 => {
                // thousands of formatted lines and one to change (the changed fraction of the file is tiny)
                labels.push("file:long-one-change");
                long_file_one_change(variant + 8 * (i % 2)).into_bytes()
            }
            11 => {
                // no token and no comment: the formatted form is the empty file
                labels.push("file:whitespace-only");
                ["\n", "\n\n", "  \n", "\t", "\r\n", " ", "\n \n\t\n", "\r\n\r\n"][variant].as_bytes().to_vec()
            }
            _ => {
                // an unformatted file with a line of more than 160 bytes of multi-byte characters (string or comment)
                labels.push("file:long-non-ascii-line");
                let ch = ["é", "€", "😀", "ж"][variant % 4];
                let pad = "x".repeat(variant);
                let long: String = ch.repeat(90);
                if variant % 2 == 0 {
                    format!("local   {pad}s{i} = \"{long}\"\nlocal t{i}  =  1\n").into_bytes()
                } else {
                    format!("local   t{i}  =  1 -- {pad}{long}\nlocal u{i} = 2\n").into_bytes()
                }
            }
        };
        if class <= 1 {
            labels.push("file:formatted");
        } else if class <= 4 {
            labels.push("file:unformatted");
        }
        case.files.insert(name.clone(), content);
        names.push(name);
    }
    case.argv = opts.to_flags();
    TreeSpec { case, names }
}

fn gen_file_args(t: &mut Tape, spec: &TreeSpec, labels: &mut Vec<&'static str>) -> Vec<String> {
    let mut args: Vec<String> = Vec::new();
    match t.pick(6) {
        0 | 1 => {
            args.push(".".into());
            labels.push("args:dot");
        }
        2 => {
            // directories
            let mut dirs: BTreeSet<String> = BTreeSet::new();
            for n in &spec.names {
                if let Some((d, _)) = n.rsplit_once('/') {
                    dirs.insert(d.split('/').next().unwrap().to_string());
                }
            }
            for d in dirs {
                if t.chance(180) {
                    args.push(d);
                }
            }
            // top-level files explicitly
            for n in &spec.names {
                if !n.contains('/') && t.chance(160) {
                    args.push(n.clone());
                }
            }
            labels.push("args:dirs-and-files");
        }
        _ => {
            for n in &spec.names {
                if t.chance(170) {
                    args.push(n.clone());
                }
            }
            // a directory together with a file below it (same spelling)
            if t.chance(60) {
                if let Some(n) = spec.names.iter().find(|n| n.starts_with("sub/")) {
                    args.push("sub".into());
                    args.push(n.clone());
                    labels.push("args:overlap");
                }
            }
            labels.push("args:explicit-files");
        }
    }
    if t.chance(40) {
        args.push("missing_dir/nothing.lua".into());
        labels.push("args:missing-path");
    }
    if args.is_empty() {
        args.push(spec.names[0].clone());
    }
    // repeats
    if t.chance(30) {
        let a = args[0].clone();
        args.push(a);
        labels.push("args:repeat");
    }
    args
}

// ------------------------------------------------------------------------------------------
// C13

fn gen_c13(t: &mut Tape, labels: &mut Vec<&'static str>) -> Option<CliCase> {
    let mut spec = gen_tree(t, labels, true);
    let fmt = ["Standard", "Unified", "Json", "Summary", "standard", "JSON"][t.pick(6)];
    let mut argv = vec!["--check".to_string()];
    if fmt != "Standard" || t.chance(60) {
        argv.push("--output-format".into());
        argv.push(fmt.into());
    }
    labels.push(match fmt.to_ascii_lowercase().as_str() {
        "standard" => "format:standard",
        "unified" => "format:unified",
        "json" => "format:json",
        _ => "format:summary",
    });
    if t.chance(50) {
        argv.push("--verify".into());
        labels.push("verify");
    }
    if t.chance(128) {
        argv.push("--num-threads".into());
        argv.push((1 + t.pick(16)).to_string());
    }
    if t.chance(80) {
        argv.push("--color".into());
        argv.push(["Never", "Always", "auto"][t.pick(3)].into());
    }
    if t.chance(60) {
        argv.push("--no-editorconfig".into());
    }
    if t.chance(50) {
        argv.push(if t.chance(128) { "--verbose" } else { "-v" }.into());
        labels.push("verbose");
    }
    argv.extend(spec.case.argv.clone());
    argv.extend(gen_file_args(t, &spec, labels));
    spec.case.argv = argv;
    log_filter(t, &mut spec.case, labels);
    Some(spec.case)
}

/// now and then the logger is told to print less (or nothing): the exit status and stdout must not depend on it
fn log_filter(t: &mut Tape, case: &mut CliCase, labels: &mut Vec<&'static str>) {
    if t.chance(30) {
        case.env.insert("STYLUA_LOG".into(), ["stylua=off", "off", "stylua=error", "error"][t.pick(4)].into());
        labels.push("env:STYLUA_LOG");
    }
}

fn diff_files_reported(format: &str, stdout: &str) -> (BTreeSet<String>, usize) {
    // (file names reported, number of diffs reported) -- unified diffs carry no file name
    let mut names = BTreeSet::new();
    let mut count = 0;
    match format {
        "standard" => {
            for l in stdout.lines() {
                let l = strip_ansi(l);
                if let Some(rest) = l.strip_prefix("Diff in ") {
                    if let Some(name) = rest.strip_suffix(':') {
                        names.insert(name.to_string());
                        count += 1;
                    }
                }
            }
        }
        "unified" => {
            count = stdout.lines().filter(|l| *l == "--- old").count();
        }
        "json" => {
            for l in stdout.lines() {
                if let Ok(v) = serde_json::from_str::<serde_json::Value>(l) {
                    if let Some(f) = v.get("file").and_then(|f| f.as_str()) {
                        names.insert(f.to_string());
                        count += 1;
                    }
                }
            }
        }
        _ => {
            for l in stdout.lines() {
                let plain: String = strip_ansi(l);
                if plain.starts_with('!') || plain.starts_with('✓') || plain.starts_with('✕') || plain.is_empty() {
                    continue;
                }
                names.insert(plain);
                count += 1;
            }
        }
    }
    (names, count)
}

fn strip_ansi(s: &str) -> String {
    let mut out = String::new();
    let mut chars = s.chars().peekable();
    while let Some(c) = chars.next() {
        if c == '\u{1b}' {
            // CSI sequence
            if chars.peek() == Some(&'[') {
                chars.next();
                for d in chars.by_ref() {
                    if d.is_ascii_alphabetic() {
                        break;
                    }
                }
            }
        } else {
            out.push(c);
        }
    }
    out
}

fn tree_unchanged(run: &CliRun) -> Option<String> {
    if run.before == run.after {
        return None;
    }
    for (k, v) in &run.before {
        match run.after.get(k) {
            None => return Some(format!("`{k}` was removed")),
            Some(w) if w.bytes != v.bytes => return Some(format!("`{k}` was modified")),
            Some(w) if w.mtime_ns != v.mtime_ns || w.ino != v.ino => return Some(format!("`{k}` was touched (mtime / inode changed)")),
            _ => {}
        }
    }
    for k in run.after.keys() {
        if !run.before.contains_key(k) {
            return Some(format!("`{k}` was created"));
        }
    }
    Some("tree changed".into())
}

fn c13_oracle(case: &CliCase, run: &CliRun) -> Verdict {
    let args = parse_args(&case.argv);
    let config = args.opts.apply(sl::Config::default());
    let (sel, missing) = simple_selection(case, &args);
    if let Some(d) = tree_unchanged(run) {
        return Verdict::Fail(format!("--check changed the file system: {d}"));
    }
    let mut any_error = missing;
    let mut differing: BTreeSet<String> = BTreeSet::new();
    let mut classes = BTreeSet::new();
    for (rel, printed) in &sel {
        match classify_file_verify(&case.files[rel], config, args.verify) {
            FileClass::Error => {
                any_error = true;
                classes.insert("error");
            }
            FileClass::Formatted => {
                classes.insert("formatted");
            }
            FileClass::Differs(_) => {
                differing.insert(printed.clone());
                classes.insert("differs");
            }
        }
    }
    let want = if any_error {
        2
    } else if !differing.is_empty() {
        1
    } else {
        0
    };
    if run.code != Some(want) {
        return Verdict::Fail(format!(
            "exit status {:?}, expected {} ({} selected, {} differ, error among them or missing argument: {}); stderr: {}",
            run.code,
            want,
            sel.len(),
            differing.len(),
            any_error,
            String::from_utf8_lossy(&run.stderr).lines().next().unwrap_or("")
        ));
    }
    let stdout = String::from_utf8_lossy(&run.stdout).to_string();
    let (names, count) = diff_files_reported(&args.output_format, &stdout);
    if args.output_format == "unified" {
        if count != differing.len() {
            return Verdict::Fail(format!("{} unified diffs printed for {} differing files", count, differing.len()));
        }
    } else {
        if names != differing || count != differing.len() {
            return Verdict::Fail(format!("diffs printed for {:?} ({} entries) but the differing files are {:?}", names, count, differing));
        }
    }
    Verdict::Pass { nontrivial: classes.len() >= 2 }
}

pub static C13: CliProp = CliProp {
    id: "C13",
    rule: "E3: generated trees of 1-6 files in up to 3 directory levels (formatted, unformatted, CRLF, unparseable, invalid UTF-8 = unreadable as text, .lua / .luau / .txt), arguments `.`, directories, explicit files, overlapping and repeated arguments, a missing path; --check with all four output formats (case variants), --verify, --num-threads 1-16, colour modes, random format flags. Model (README): selected = explicit files plus *.lua / *.luau below directory arguments; exit 2 if any selected file cannot be read or parsed or an argument is missing, else 1 if any selected file differs from the library's output under the flags, else 0; the set (unified: the number) of diffs printed equals the set of differing files; the tree snapshot (bytes, mtime ns, inode, listing) is unchanged. Non-trivial: at least two outcome classes among the selected files.",
    gen_case: gen_c13,
    oracle: c13_oracle,
    quick_cases: 16_000,
    thorough_cases: 300_000,
    tape_len: 200,
    assumptions: &["'unreadable' is simulated by invalid UTF-8 (the sandbox runs as root, file modes are not enforced)", "arguments never spell the same file in two different ways (C16 covers that case)"],
    extra: None,
    exclude: None,
};

// ------------------------------------------------------------------------------------------
// C14

fn gen_c14(t: &mut Tape, labels: &mut Vec<&'static str>) -> Option<CliCase> {
    let mut spec = gen_tree(t, labels, true);
    let mut argv: Vec<String> = Vec::new();
    if t.chance(60) {
        argv.push("--num-threads".into());
        argv.push((1 + t.pick(16)).to_string());
    }
    // a file whose requires are out of order: require sorting, verification and ranges are drawn more often, so that
    // "verification rejects the re-ordered text" meets every other option
    let has_req = labels.contains(&"file:requires-out-of-order");
    if has_req && t.chance(200) && !spec.case.argv.iter().any(|a| a == "--sort-requires") {
        argv.push("--sort-requires".into());
    }
    if t.chance(if has_req { 140 } else { 40 }) {
        argv.push("--verify".into());
        labels.push("verify");
    }
    if t.chance(50) {
        // without --check the output format only changes how errors are reported; the outcome must not depend on it
        // (unified and summary are rejected without --check)
        argv.push("--output-format".into());
        argv.push(["Json", "Standard", "json"][t.pick(3)].into());
        labels.push("output-format-in-write-mode");
    }
    if t.chance(if has_req { 120 } else { 40 }) {
        // a formatting range (byte offsets, applied to every file): failing files still stay untouched
        let a = [0usize, 5, 30, 1000][t.pick(4)];
        let b = [0usize, 12, 60, 100_000][t.pick(4)];
        match t.pick(3) {
            0 => argv.extend(["--range-start".to_string(), a.to_string()]),
            1 => argv.extend(["--range-end".to_string(), b.to_string()]),
            _ => argv.extend(["--range-start".to_string(), a.min(b).to_string(), "--range-end".to_string(), a.max(b).to_string()]),
        }
        labels.push("range");
    }
    argv.extend(spec.case.argv.clone());
    argv.extend(gen_file_args(t, &spec, labels));
    // injected faults
    let mut f = Vec::new();
    for n in &spec.names {
        if t.chance(40) {
            let kind = ["panic", "verify", "write"][t.pick(3)];
            f.push(format!("{}={}", basename(n), kind));
            labels.push(match kind {
                "panic" => "fault:formatter-crash",
                "verify" => "fault:verification-failure",
                _ => "fault:write-error",
            });
        }
    }
    if !f.is_empty() {
        spec.case.env.insert("STYLUA_VERIF_FAULT".into(), f.join(","));
    }
    spec.case.argv = argv;
    log_filter(t, &mut spec.case, labels);
    Some(spec.case)
}

fn c14_oracle(case: &CliCase, run: &CliRun) -> Verdict {
    let args = parse_args(&case.argv);
    let config = args.opts.apply(sl::Config::default());
    let (sel, missing) = simple_selection(case, &args);
    let faults = faults(case);
    let mut any_failure = missing;
    let mut kinds = BTreeSet::new();
    for (rel, before) in &run.before {
        if rel.ends_with('/') {
            continue;
        }
        let Some(after) = run.after.get(rel) else { return Verdict::Fail(format!("`{rel}` disappeared")) };
        let untouched = after.mtime_ns == before.mtime_ns && after.ino == before.ino && after.bytes == before.bytes;
        if !sel.contains_key(rel) {
            if !untouched {
                return Verdict::Fail(format!("`{rel}` was not selected but was changed"));
            }
            continue;
        }
        let fault = faults.get(basename(rel)).map(|s| s.as_str());
        let class = classify_file_full(&before.bytes, config, args.range, args.verify);
        match (&class, fault) {
            // formatting never starts for a file that cannot be read; injected failures at the format point
            (FileClass::Error, _) | (_, Some("panic")) | (_, Some("verify")) => {
                // unreadable files fail before the fault point
                if matches!(class, FileClass::Error) || fault.is_some() {
                    // invalid UTF-8 fails at read time whatever the fault; unparseable fails in format_code unless a fault fires first
                    any_failure = true;
                    kinds.insert("failing");
                    if !untouched {
                        return Verdict::Fail(format!("`{rel}` failed to format but was changed"));
                    }
                }
            }
            (FileClass::Differs(_), Some("write")) => {
                any_failure = true;
                kinds.insert("failing");
                if !untouched {
                    return Verdict::Fail(format!("`{rel}` could not be written but was changed"));
                }
            }
            (FileClass::Formatted, _) => {
                kinds.insert("formatted");
                if !untouched {
                    return Verdict::Fail(format!("`{rel}` is already formatted but was rewritten"));
                }
            }
            (FileClass::Differs(q), _) => {
                kinds.insert("rewritten");
                if after.bytes != q.as_bytes() {
                    let got = String::from_utf8_lossy(&after.bytes);
                    return Verdict::Fail(if after.bytes == before.bytes {
                        format!("`{rel}` should have been formatted but was left unchanged")
                    } else {
                        format!("`{rel}` was not replaced by its complete formatted text (got {} bytes, expected {}): {:?}", after.bytes.len(), q.len(), got.chars().take(60).collect::<String>())
                    });
                }
            }
        }
    }
    for k in run.after.keys() {
        if !run.before.contains_key(k) {
            return Verdict::Fail(format!("stray file `{k}` was created"));
        }
    }
    let want = if any_failure { 2 } else { 0 };
    if run.code != Some(want) {
        return Verdict::Fail(format!("exit status {:?}, expected {want}; stderr: {}", run.code, String::from_utf8_lossy(&run.stderr).lines().next().unwrap_or("")));
    }
    Verdict::Pass { nontrivial: kinds.len() >= 2 }
}

pub static C14: CliProp = CliProp {
    id: "C14",
    rule: "E3, write mode: trees as in C13; failure classes unparseable, invalid UTF-8, and - through the fault hook, independent of which formatter defects exist - formatter crash, verification failure and write error on chosen files; arguments in any order, directories, repeats, --num-threads 1-16. Model: a failing file keeps bytes, mtime and inode; every other selected file that differs from the library's output is replaced by exactly that output; an already formatted file keeps mtime and inode; unselected files are untouched; no file is created; exit 2 iff any failure (or a missing argument), else 0. Non-trivial: at least two of {failing, rewritten, already formatted} among the selected files.",
    gen_case: gen_c14,
    oracle: c14_oracle,
    quick_cases: 16_000,
    thorough_cases: 300_000,
    tape_len: 200,
    assumptions: &["formatter crash / verification failure / write error are injected with the verif-hooks fault points (STYLUA_VERIF_FAULT)", "'unreadable' is simulated by invalid UTF-8"],
    extra: None,
    exclude: None,
};


// ------------------------------------------------------------------------------------------
// C18: diffs reconstruct the formatted file

/// lines with their terminators (the unit `similar::TextDiff::from_lines` works on)
fn lines_keepends(s: &str) -> Vec<String> {
    // a line ends at "\r\n", "\n" or a lone "\r" (the tokenisation of `similar::TextDiff::from_lines`)
    let b = s.as_bytes();
    let mut out = Vec::new();
    let mut start = 0;
    let mut i = 0;
    while i < b.len() {
        if b[i] == b'\n' {
            out.push(s[start..=i].to_string());
            start = i + 1;
        } else if b[i] == b'\r' && b.get(i + 1) != Some(&b'\n') {
            out.push(s[start..=i].to_string());
            start = i + 1;
        }
        i += 1;
    }
    if start < b.len() {
        out.push(s[start..].to_string());
    }
    out
}

/// applies a unified diff (as printed by `--output-format unified`) to `original`
pub fn apply_unified(original: &str, diff: &str) -> Result<String, String> {
    let old = lines_keepends(original);
    let mut out: Vec<String> = Vec::new();
    let mut cursor = 0usize; // index into old
    let dl_owned = lines_keepends(diff);
    let dl: Vec<&str> = dl_owned.iter().map(|l| l.as_str()).collect();
    let mut i = 0;
    // header
    while i < dl.len() && !dl[i].starts_with("@@") {
        i += 1;
    }
    while i < dl.len() {
        let h = dl[i];
        if !h.starts_with("@@") {
            return Err(format!("expected hunk header, got {:?}", h));
        }
        // @@ -a,b +c,d @@
        let body = h.trim_start_matches("@@").trim();
        let old_part = body.split_whitespace().next().ok_or("bad hunk header")?;
        let nums = old_part.trim_start_matches('-');
        let (a, b) = match nums.split_once(',') {
            Some((a, b)) => (a.parse::<usize>().map_err(|e| e.to_string())?, b.parse::<usize>().map_err(|e| e.to_string())?),
            None => (nums.parse::<usize>().map_err(|e| e.to_string())?, 1),
        };
        let start = if b == 0 { a } else { a.saturating_sub(1) };
        if start < cursor || start > old.len() {
            return Err(format!("hunk start {start} out of order (cursor {cursor}, {} lines)", old.len()));
        }
        out.extend(old[cursor..start].iter().cloned());
        cursor = start;
        i += 1;
        while i < dl.len() && !dl[i].starts_with("@@") {
            let l = dl[i];
            let next_is_marker = dl.get(i + 1).map_or(false, |n| n.starts_with("\\ No newline"));
            let mut text = l[1.min(l.len())..].to_string();
            if next_is_marker {
                // the line has no terminator in the file
                if text.ends_with('\n') {
                    text.pop();
                    if text.ends_with('\r') {
                        // a CR before the LF belongs to the diff's own line break only if the file line had none;
                        // similar prints the line as is, then "\n\\ No newline": the CR is content
                    }
                }
            }
            match l.chars().next() {
                Some(' ') => {
                    if cursor >= old.len() || old[cursor] != text {
                        return Err(format!("context line does not match at old line {}: {:?} vs {:?}", cursor + 1, old.get(cursor), text));
                    }
                    out.push(text);
                    cursor += 1;
                }
                Some('-') => {
                    if cursor >= old.len() || old[cursor] != text {
                        return Err(format!("removed line does not match at old line {}: {:?} vs {:?}", cursor + 1, old.get(cursor), text));
                    }
                    cursor += 1;
                }
                Some('+') => out.push(text),
                Some('\\') => {}
                _ => return Err(format!("unexpected diff line {:?}", l)),
            }
            i += 1;
        }
    }
    out.extend(old[cursor..].iter().cloned());
    Ok(out.concat())
}

/// applies the JSON mismatches (line ranges, 0-based, inclusive) to `original`
pub fn apply_json(original: &str, mismatches: &serde_json::Value) -> Result<String, String> {
    let mut lines = lines_keepends(original);
    let mut ms: Vec<&serde_json::Value> = mismatches.as_array().ok_or("mismatches is not an array")?.iter().collect();
    // bottom-up so that earlier line numbers stay valid
    ms.sort_by_key(|m| std::cmp::Reverse(m["original_start_line"].as_u64().unwrap_or(0)));
    for m in ms {
        let start = m["original_start_line"].as_u64().ok_or("no original_start_line")? as usize;
        let end = m["original_end_line"].as_u64().ok_or("no original_end_line")? as usize;
        let original_text = m["original"].as_str().ok_or("no original")?;
        let expected = m["expected"].as_str().ok_or("no expected")?;
        let new_lines = lines_keepends(expected);
        if original_text.is_empty() {
            // insertion before `start`
            if start > lines.len() {
                return Err(format!("insertion at line {start} beyond the end ({} lines)", lines.len()));
            }
            lines.splice(start..start, new_lines);
        } else {
            if end >= lines.len() || start > end {
                return Err(format!("range {start}..={end} outside the file ({} lines)", lines.len()));
            }
            let current: String = lines[start..=end].concat();
            if current != original_text {
                return Err(format!("`original` of the mismatch does not equal lines {start}..={end} of the file: {:?} vs {:?}", original_text.chars().take(60).collect::<String>(), current.chars().take(60).collect::<String>()));
            }
            lines.splice(start..=end, new_lines);
        }
    }
    Ok(lines.concat())
}

fn gen_c18(t: &mut Tape, labels: &mut Vec<&'static str>) -> Option<CliCase> {
    use crate::gen::{generate, GenOpts};
    let mut case = CliCase::default();
    case.files.insert(".editorconfig".into(), b"root = true\n".to_vec());
    let mut opts = gen_optcfg(t, false);
    let kind = t.pick(14);
    if kind == 7 || kind == 10 || kind == 11 {
        opts.sort_requires = Some(true);
    }
    let config = opts.apply(sl::Config::default());
    let k = t.pick(40);
    let mut src = match kind {
        0 | 1 => messy_program(k),
        2 | 3 | 4 => generate(t, Syntax::Lua51, GenOpts { budget: 40, max_stmts: 8, ..GenOpts::stmt_comments() }).source,
        5 => {
            // formatted under another configuration: many separated hunks
            labels.push("pair:other-configuration");
            let other = sl::Config { column_width: 30, indent_type: sl::IndentType::Spaces, indent_width: 3, quote_style: sl::QuoteStyle::ForceSingle, ..sl::Config::default() };
            let base = format!("{}{}{}", messy_program(k), messy_program(k + 1), crate::cli::PROBE);
            lib_format(&base, other).unwrap_or(base)
        }
        6 => {
            labels.push("pair:already-formatted");
            let base = messy_program(k);
            lib_format(&base, config).unwrap_or(base)
        }
        7 => {
            labels.push("pair:requires");
            format!("local zz = require(\"zz\")\nlocal mm = require(\"mm\")\nlocal aa = require(\"aa\")\nlocal bb = require(\"bb\")\n\n{}", messy_program(k))
        }
        8 => {
            labels.push("pair:blank-lines");
            format!("\n\n\nlocal a = 1\n\n\n\n\nlocal b = 2\n\n\n\nreturn a\n\n\n")
        }
        10 | 11 => {
            // a require block at the end of the file whose first member sorts last: lines are inserted behind the last line
            labels.push("pair:requires-at-end");
            let head = if kind == 10 { messy_program(k) } else { String::from("local x = 1\n") };
            format!("{head}\nlocal cc = require(\"cc\")\nlocal aa = require(\"aa\")\nlocal bb = require(\"bb\")\n")
        }
        12 | 13 => {
            // thousands of formatted lines and a single line (or blank line) to change: the changed fraction is tiny
            labels.push("pair:long-file-one-change");
            long_file_one_change(k)
        }
        _ => format!("{}\nlocal   last_line   =   1", messy_program(k)),
    };
    match t.pick(8) {
        0 => {
            src = src.replace("\r\n", "\n").replace('\n', "\r\n");
            labels.push("input:crlf");
        }
        1 => {
            while src.ends_with('\n') || src.ends_with('\r') {
                src.pop();
            }
            labels.push("input:no-final-newline");
        }
        2 => {
            src = format!("local   first_line   =   0\n{src}");
            labels.push("input:change-on-first-line");
        }
        _ => {}
    }
    case.files.insert("f.lua".into(), src.into_bytes());
    let fmt = ["Unified", "Json", "Standard", "Summary"][t.pick(4)];
    labels.push(match fmt {
        "Unified" => "format:unified",
        "Json" => "format:json",
        "Standard" => "format:standard",
        _ => "format:summary",
    });
    let mut argv = vec!["--check".to_string(), "--output-format".into(), fmt.into(), "--color".into(), "Never".into()];
    argv.extend(opts.to_flags());
    if t.chance(50) {
        // the same text through stdin: the diff is computed by another code path (format_string)
        labels.push("carrier:stdin");
        case.stdin = Some(case.files["f.lua"].clone());
        argv.push("-".into());
    } else if t.chance(60) {
        // a second file with the same bytes: both need the same diff, and both must be reported
        labels.push("twin-file");
        let bytes = case.files["f.lua"].clone();
        case.files.insert("g.lua".into(), bytes);
        argv.push("f.lua".into());
        argv.push("g.lua".into());
    } else {
        argv.push("f.lua".into());
    }
    case.argv = argv;
    Some(case)
}

fn c18_oracle(case: &CliCase, run: &CliRun) -> Verdict {
    let args = parse_args(&case.argv);
    let config = args.opts.apply(sl::Config::default());
    let Ok(original) = std::str::from_utf8(&case.files["f.lua"]) else { return Verdict::Skip("not UTF-8") };
    let Some(formatted) = lib_format(original, config) else { return Verdict::Skip("input does not parse") };
    let stdout = String::from_utf8_lossy(&run.stdout).to_string();
    let differs = formatted != original;
    // text piped through stdin is reported under the name `stdin`
    let name = if case.stdin.is_some() { "stdin" } else { "f.lua" };
    if case.files.contains_key("g.lua") {
        return c18_twins(case, run, &args, original, &formatted);
    }
    if let Some(d) = tree_unchanged(run) {
        return Verdict::Fail(format!("--check changed the file system: {d}"));
    }
    let printed = match args.output_format.as_str() {
        "summary" => stdout.lines().any(|l| strip_ansi(l) == name),
        _ => !stdout.trim().is_empty(),
    };
    if printed != differs {
        return Verdict::Fail(format!("a diff was {} although the file {} its formatted text", if printed { "printed" } else { "not printed" }, if differs { "differs from" } else { "equals" }));
    }
    if run.code != Some(if differs { 1 } else { 0 }) {
        return Verdict::Fail(format!("exit status {:?} although the file {} its formatted text", run.code, if differs { "differs from" } else { "equals" }));
    }
    if !differs {
        return Verdict::Pass { nontrivial: false };
    }
    match args.output_format.as_str() {
        "unified" => match apply_unified(original, &stdout) {
            Ok(r) if r == formatted => Verdict::Pass { nontrivial: true },
            Ok(r) => {
                let (a, b) = crate::oracle::first_line_diff(&formatted, &r);
                Verdict::Fail(format!("applying the unified diff does not give the formatted text: expected line {:?}, got {:?}", a, b))
            }
            Err(e) => Verdict::Fail(format!("the unified diff does not apply to the file: {e}")),
        },
        "json" => {
            let Some(line) = stdout.lines().next() else { return Verdict::Fail("no JSON output".into()) };
            let Ok(v) = serde_json::from_str::<serde_json::Value>(line) else { return Verdict::Fail("JSON output does not parse".into()) };
            if v["file"].as_str() != Some(name) {
                return Verdict::Fail(format!("JSON output names file {:?}", v["file"]));
            }
            match apply_json(original, &v["mismatches"]) {
                Ok(r) if r == formatted => Verdict::Pass { nontrivial: true },
                Ok(r) => {
                    let (a, b) = crate::oracle::first_line_diff(&formatted, &r);
                    Verdict::Fail(format!("applying the JSON mismatches does not give the formatted text: expected line {:?}, got {:?}", a, b))
                }
                Err(e) => Verdict::Fail(format!("the JSON mismatches do not apply to the file: {e}")),
            }
        }
        _ => Verdict::Pass { nontrivial: true },
    }
}

/// two files with the same bytes in one run: each is reported, each report reconstructs the formatted text
fn c18_twins(_case: &CliCase, run: &CliRun, args: &Args, original: &str, formatted: &str) -> Verdict {
    let stdout = String::from_utf8_lossy(&run.stdout).to_string();
    let differs = formatted != original;
    if let Some(d) = tree_unchanged(run) {
        return Verdict::Fail(format!("--check changed the file system: {d}"));
    }
    if run.code != Some(if differs { 1 } else { 0 }) {
        return Verdict::Fail(format!("exit status {:?} although the files {} their formatted text", run.code, if differs { "differ from" } else { "equal" }));
    }
    if !differs {
        if !stdout.lines().all(|l| { let p = strip_ansi(l); p != "f.lua" && p != "g.lua" && !p.starts_with("Diff in") && !p.starts_with("---") && !p.starts_with('{') }) {
            return Verdict::Fail("a diff was printed although the files equal their formatted text".into());
        }
        return Verdict::Pass { nontrivial: false };
    }
    match args.output_format.as_str() {
        "unified" => {
            // diffs carry no file name: one block per differing file
            let mut blocks: Vec<String> = Vec::new();
            let all = lines_keepends(&stdout);
            for (i, l) in all.iter().enumerate() {
                // a header is `--- old` followed by `+++ new` (a removed comment line also begins with `---`)
                if l.trim_end() == "--- old" && all.get(i + 1).map_or(false, |n| n.trim_end() == "+++ new") {
                    blocks.push(String::new());
                }
                if let Some(b) = blocks.last_mut() {
                    b.push_str(l);
                }
            }
            if blocks.len() != 2 {
                return Verdict::Fail(format!("{} unified diffs printed for two differing files", blocks.len()));
            }
            for b in &blocks {
                match apply_unified(original, b) {
                    Ok(r) if r == formatted => {}
                    Ok(_) => return Verdict::Fail("applying a unified diff does not give the formatted text".into()),
                    Err(e) => return Verdict::Fail(format!("a unified diff does not apply to the file: {e}")),
                }
            }
        }
        "json" => {
            let mut seen = BTreeSet::new();
            for line in stdout.lines() {
                let Ok(v) = serde_json::from_str::<serde_json::Value>(line) else { continue };
                let Some(f) = v["file"].as_str() else { continue };
                match apply_json(original, &v["mismatches"]) {
                    Ok(r) if r == formatted => {
                        seen.insert(f.to_string());
                    }
                    Ok(_) => return Verdict::Fail(format!("applying the JSON mismatches of {f} does not give the formatted text")),
                    Err(e) => return Verdict::Fail(format!("the JSON mismatches of {f} do not apply: {e}")),
                }
            }
            if seen.len() != 2 || !seen.contains("f.lua") || !seen.contains("g.lua") {
                return Verdict::Fail(format!("JSON output reports {:?} for two differing files", seen));
            }
        }
        "summary" => {
            for n in ["f.lua", "g.lua"] {
                if !stdout.lines().any(|l| strip_ansi(l) == n) {
                    return Verdict::Fail(format!("the summary does not list {n}"));
                }
            }
        }
        _ => {
            for n in ["f.lua", "g.lua"] {
                if !stdout.lines().any(|l| strip_ansi(l) == format!("Diff in {n}:")) {
                    return Verdict::Fail(format!("no diff is printed for {n}"));
                }
            }
        }
    }
    Verdict::Pass { nontrivial: true }
}

pub static C18: CliProp = CliProp {
    id: "C18",
    rule: "E3: one file per case, (original, formatted) pairs arising from programs: hand-messy and grammar-generated programs, text formatted under another configuration (many separated hunks), already formatted text, unsorted requires with --sort-requires at the start and at the end of the file (pure moves, insertions behind the last line), runs of blank lines (pure deletions), a change on the first / last line, CRLF input, no final newline; random format flags; --check with unified / json / standard / summary output, the text given as a file or piped through stdin (`-`, reported as `stdin`). Oracle: the checker's own unified-diff applier (hunks, context verification, `\\ No newline at end of file`) applied to the original gives exactly the library's formatted text; the JSON mismatches applied bottom-up as line-range replacements (`original == \"\"` = insertion before original_start_line; `original` must equal the replaced lines) give the same; summary lists the file iff it differs; for every format a diff is printed iff the file differs, and the exit status agrees. Non-trivial: the file differs from its formatted text.",
    gen_case: gen_c18,
    oracle: c18_oracle,
    quick_cases: 16_000,
    thorough_cases: 300_000,
    tape_len: 500,
    assumptions: &["JSON line numbers are 0-based and inclusive, as emitted by output_diff_json", "the standard (pretty) format is only checked for 'printed iff different'", "pairs on which the `similar` crate itself reports inconsistent grouped operations are excluded (known finding KF-C18-similar-inconsistent-ops)"],
    extra: None,
    exclude: Some(c18_known_finding),
};

/// Known finding KF-C18-similar-inconsistent-ops: for some pairs (a deletion next to an insertion around a repeated
/// line such as `end`) `similar::TextDiff::grouped_ops(0)` yields operations whose indices do not describe the new
/// text; the JSON mismatches copy them. Detected by replaying the library's own operations.
fn c18_known_finding(case: &CliCase) -> Option<&'static str> {
    let args = parse_args(&case.argv);
    if args.output_format != "json" {
        return None;
    }
    let config = args.opts.apply(sl::Config::default());
    let original = std::str::from_utf8(case.files.get("f.lua")?).ok()?;
    let formatted = lib_format(original, config)?;
    let diff = similar::TextDiff::from_lines(original, &formatted);
    let old: Vec<&str> = diff.old_slices().to_vec();
    let new: Vec<&str> = diff.new_slices().to_vec();
    let mut ops: Vec<similar::DiffOp> = diff.grouped_ops(0).into_iter().flatten().collect();
    ops.sort_by_key(|op| op.old_range().start);
    let mut out: Vec<&str> = Vec::new();
    let mut cursor = 0usize;
    for op in ops {
        let (o, n) = (op.old_range(), op.new_range());
        match op {
            similar::DiffOp::Equal { .. } => {}
            _ => {
                if o.start < cursor || o.start > old.len() || n.end > new.len() {
                    return Some("KF-C18-similar-inconsistent-ops");
                }
                out.extend_from_slice(&old[cursor..o.start]);
                out.extend_from_slice(&new[n.start..n.end]);
                cursor = o.end;
            }
        }
    }
    out.extend_from_slice(&old[cursor.min(old.len())..]);
    if out.concat() != formatted {
        Some("KF-C18-similar-inconsistent-ops")
    } else {
        None
    }
}


// ------------------------------------------------------------------------------------------
// C17: stdin mode

const IGNORE_FILES: [&str; 5] = [
    "ignored.lua\n",
    "gen/\n",
    "*.gen.lua\n!keep.gen.lua\n",
    "# comment\n\n/top.lua\nsub/inner.lua\n",
    "**/deep.lua\nvendor/**\n",
];
const STDIN_PATHS: [&str; 12] = [
    "ignored.lua", "other.lua", "gen/a.lua", "a.gen.lua", "keep.gen.lua", "top.lua", "sub/top.lua", "sub/inner.lua", "x/deep.lua", "vendor/lib/m.lua", "sub/ignored.lua", "not/there/file.lua",
];

/// is `path` (relative to cwd) ignored for the purpose of `--respect-ignores` on an explicitly named path?
/// Only ONE ignore file is consulted: the one in the path's directory, else the one in the working directory.
pub fn explicit_path_ignored(case: &CliCase, path: &str) -> bool {
    use crate::ignore_model::*;
    let rel = join_rel(&case.cwd, path);
    let parent = match rel.rsplit_once('/') {
        Some((p, _)) => p.to_string(),
        None => String::new(),
    };
    let in_parent = if parent.is_empty() { ".styluaignore".to_string() } else { format!("{parent}/.styluaignore") };
    let cwd_file = if case.cwd.is_empty() { ".styluaignore".to_string() } else { format!("{}/.styluaignore", case.cwd) };
    let (file, root) = if case.files.contains_key(&in_parent) {
        (in_parent, parent)
    } else if case.files.contains_key(&cwd_file) {
        (cwd_file, case.cwd.clone())
    } else {
        return false;
    };
    let text = String::from_utf8_lossy(&case.files[&file]).to_string();
    let patterns = parse_ignore(&text);
    // path relative to the ignore file's directory when it lies below it, else as given
    let relative = if root.is_empty() {
        rel.clone()
    } else if let Some(r) = rel.strip_prefix(&format!("{root}/")) {
        r.to_string()
    } else {
        rel.clone()
    };
    match_path_or_parents(&patterns, &relative) == Match::Ignore
}

fn gen_c17(t: &mut Tape, labels: &mut Vec<&'static str>) -> Option<CliCase> {
    use crate::gen::{generate, GenOpts};
    let mut case = CliCase::default();
    case.files.insert(".editorconfig".into(), b"root = true\n".to_vec());
    case.files.insert("other.lua".into(), messy_program(1).into_bytes());
    case.files.insert("sub/inner.lua".into(), messy_program(2).into_bytes());
    if t.chance(160) {
        case.files.insert(".styluaignore".into(), IGNORE_FILES[t.pick(IGNORE_FILES.len())].as_bytes().to_vec());
        labels.push("styluaignore");
    }
    if t.chance(40) {
        case.files.insert("sub/.styluaignore".into(), b"inner.lua\n".to_vec());
    }
    let opts = gen_optcfg(t, true);
    // configuration files: in the working directory and / or above it
    case.cwd = "proj/work".to_string();
    for f in ["other.lua", "sub/inner.lua", ".styluaignore", "sub/.styluaignore"] {
        if let Some(v) = case.files.remove(f) {
            case.files.insert(format!("proj/work/{f}"), v);
        }
    }
    if t.chance(70) {
        let mut o = gen_optcfg(t, false);
        o.column_width = Some(47);
        case.files.insert("proj/work/stylua.toml".into(), o.to_toml().into_bytes());
        labels.push("toml:cwd");
    }
    if t.chance(70) {
        let mut o = gen_optcfg(t, false);
        o.column_width = Some(53);
        case.files.insert("proj/.stylua.toml".into(), o.to_toml().into_bytes());
        labels.push("toml:parent");
    }
    let search_parents = t.chance(100);
    let k = t.pick(50);
    let stdin: Vec<u8> = match t.pick(14) {
        0 | 1 | 2 => messy_program(k).into_bytes(),
        3 | 4 => generate(t, opts.syntax.unwrap_or(Syntax::Lua51), GenOpts { budget: 40, ..GenOpts::stmt_comments() }).source.into_bytes(),
        5 => {
            labels.push("stdin:invalid");
            format!("local x = = {k}\nprint(").into_bytes()
        }
        6 => {
            labels.push("stdin:empty");
            Vec::new()
        }
        7 => {
            labels.push("stdin:whitespace");
            b"  \n\t\n\n".to_vec()
        }
        8 => {
            labels.push("stdin:crlf");
            messy_program(k).replace('\n', "\r\n").into_bytes()
        }
        9 => {
            labels.push("stdin:no-final-newline");
            messy_program(k).trim_end().to_string().into_bytes()
        }
        11 | 12 => {
            // a header line and a long last line without a final newline (a minified one-liner): when the text is passed
            // through for an ignored path, nothing may be lost
            labels.push("stdin:long-unterminated-last-line");
            let mut s = String::from("-- header\n");
            s.push_str("local t = { ");
            for i in 0..(300 + 40 * k) {
                s.push_str(&format!("v{i},"));
            }
            s.push_str(" }");
            s.into_bytes()
        }
        10 => {
            labels.push("stdin:large");
            let mut s = String::new();
            for i in 0..(400 + 40 * k) {
                s.push_str(&format!("local   v{i} = {{ {i},  'x' }}\n"));
            }
            s.into_bytes()
        }
        _ => crate::cli::PROBE.as_bytes().to_vec(),
    };
    let mut argv = opts.to_flags();
    if t.chance(140) {
        argv.push("--stdin-filepath".into());
        argv.push(STDIN_PATHS[t.pick(STDIN_PATHS.len())].into());
        labels.push("stdin-filepath");
    }
    if t.chance(140) {
        argv.push("--respect-ignores".into());
        labels.push("respect-ignores");
    }
    if t.chance(50) {
        argv.push("--check".into());
        argv.push("--output-format".into());
        argv.push(["Standard", "Unified", "Json", "Summary"][t.pick(4)].into());
        labels.push("check");
    }
    if t.chance(40) {
        argv.push("--verify".into());
    }
    if t.chance(60) {
        // both bounds, one bound only, or bounds in reverse order
        let a = t.pick(60);
        let b = 60 + t.pick(200);
        match t.pick(5) {
            0 | 1 => {
                argv.extend(["--range-start".to_string(), a.to_string(), "--range-end".to_string(), b.to_string()]);
                labels.push("range");
            }
            2 => {
                argv.extend(["--range-start".to_string(), a.to_string()]);
                labels.push("range:start-only");
            }
            3 => {
                argv.extend(["--range-end".to_string(), b.to_string()]);
                labels.push("range:end-only");
            }
            _ => {
                argv.extend(["--range-start".to_string(), b.to_string(), "--range-end".to_string(), a.to_string()]);
                labels.push("range:reversed");
            }
        }
    }
    if t.chance(40) {
        argv.push("--no-editorconfig".into());
    }
    if search_parents {
        argv.push("--search-parent-directories".into());
        labels.push("search-parent-directories");
    }
    argv.push("-".into());
    case.argv = argv;
    case.stdin = Some(stdin);
    log_filter(t, &mut case, labels);
    Some(case)
}

fn c17_oracle(case: &CliCase, run: &CliRun) -> Verdict {
    let args = parse_args(&case.argv);
    let (dir, name) = match &args.stdin_filepath {
        Some(p) => {
            let rel = join_rel(&case.cwd, p);
            match rel.rsplit_once('/') {
                Some((d, n)) => (d.to_string(), n.to_string()),
                None => (String::new(), rel),
            }
        }
        None => (case.cwd.clone(), "*.lua".to_string()),
    };
    let Some(config) = resolve_config(case, &args, &dir, &name) else { return Verdict::Skip("model cannot resolve the configuration") };
    let input = case.stdin.clone().unwrap_or_default();
    if let Some(d) = tree_unchanged(run) {
        return Verdict::Fail(format!("stdin mode changed the file system: {d}"));
    }
    let Ok(text) = String::from_utf8(input.clone()) else { return Verdict::Skip("stdin is not UTF-8") };
    let skip = args.respect_ignores && args.stdin_filepath.as_ref().map_or(false, |p| explicit_path_ignored(case, p));
    let expected: Option<String> = if skip { Some(text.clone()) } else { crate::cli::lib_format_full(&text, config, args.range, args.verify) };
    if args.check {
        // diff mode on stdin: exit status and "printed iff different"
        return match &expected {
            None => {
                let body: String = String::from_utf8_lossy(&run.stdout).lines().filter(|l| { let p = strip_ansi(l); !(p.starts_with('!') || p.starts_with('✓') || p.starts_with('✕')) }).collect::<Vec<_>>().join("\n");
                if run.code == Some(2) && body.trim().is_empty() {
                    Verdict::Pass { nontrivial: true }
                } else {
                    Verdict::Fail(format!("parse error on stdin in check mode: exit {:?}, {} bytes on stdout", run.code, run.stdout.len()))
                }
            }
            Some(q) => {
                let differs = *q != text;
                let want = if differs { 1 } else { 0 };
                let body: String = String::from_utf8_lossy(&run.stdout).lines().filter(|l| { let p = strip_ansi(l); !(p.starts_with('!') || p.starts_with('✓') || p.starts_with('✕')) }).collect::<Vec<_>>().join("\n");
                if run.code != Some(want) {
                    Verdict::Fail(format!("check mode on stdin: exit {:?}, expected {want}", run.code))
                } else if body.trim().is_empty() == differs {
                    Verdict::Fail(format!("check mode on stdin: diff {} although the text {}", if differs { "missing" } else { "printed" }, if differs { "differs" } else { "is formatted" }))
                } else {
                    Verdict::Pass { nontrivial: differs }
                }
            }
        };
    }
    match expected {
        None => {
            if !run.stdout.is_empty() {
                return Verdict::Fail(format!("parse error but {} bytes were written to stdout", run.stdout.len()));
            }
            if run.code != Some(2) {
                return Verdict::Fail(format!("parse error but exit status {:?}", run.code));
            }
            Verdict::Pass { nontrivial: true }
        }
        Some(q) => {
            if run.stdout != q.as_bytes() {
                let got = String::from_utf8_lossy(&run.stdout).to_string();
                let (a, b) = crate::oracle::first_line_diff(&q, &got);
                return Verdict::Fail(format!(
                    "stdout is not the library's output{}: expected line {:?}, got {:?} ({} vs {} bytes)",
                    if skip { " (the path is ignored: input must pass through unchanged)" } else { "" },
                    a,
                    b,
                    q.len(),
                    got.len()
                ));
            }
            if run.code != Some(0) {
                return Verdict::Fail(format!("exit status {:?} for valid input; stderr: {}", run.code, String::from_utf8_lossy(&run.stderr).lines().next().unwrap_or("")));
            }
            Verdict::Pass { nontrivial: q != text || skip }
        }
    }
}

pub static C17: CliProp = CliProp {
    id: "C17",
    rule: "E3: `stylua [options] -` with generated stdin (messy / grammar-generated / probe programs, invalid text, empty, whitespace only, CRLF, no final newline, large inputs of thousands of statements), options valid with stdin: format flags, --stdin-filepath (existing, missing, ignored, re-included by a negated pattern), --respect-ignores with .styluaignore files of the supported pattern forms, --check x four output formats, --verify, ranges. Model: stdout equals the library's output for the input under the flags (with the range), byte for byte, exit 0; on a parse error stdout is empty and the exit status is 2; when --respect-ignores and --stdin-filepath name a path the ignore file of its directory (else of the working directory) ignores, stdout equals the input; in check mode a diff is printed iff the text differs and the exit status is 1/0 accordingly; the tree snapshot never changes. Non-trivial: the output differs from the input, or the input is invalid, or the path is ignored.",
    gen_case: gen_c17,
    oracle: c17_oracle,
    quick_cases: 16_000,
    thorough_cases: 300_000,
    tape_len: 400,
    assumptions: &["configuration files appear only as stylua.toml in the working directory and .stylua.toml in its parent (C15 covers the full configuration search)", "--stdin-filepath values are relative paths"],
    extra: None,
    exclude: None,
};


// ------------------------------------------------------------------------------------------
// C16: file selection

/// every directory of the tree (root-relative, "" = root) that holds a `.styluaignore`, with its patterns
fn ignore_files(case: &CliCase) -> BTreeMap<String, Vec<crate::ignore_model::Pattern>> {
    let mut m = BTreeMap::new();
    for (k, v) in &case.files {
        if basename(k) == ".styluaignore" {
            let dir = k.rsplit_once('/').map_or(String::new(), |(d, _)| d.to_string());
            m.insert(dir, crate::ignore_model::parse_ignore(&String::from_utf8_lossy(v)));
        }
    }
    m
}

fn rel_to(dir: &str, path: &str) -> Option<String> {
    if dir.is_empty() {
        Some(path.to_string())
    } else {
        path.strip_prefix(&format!("{dir}/")).map(|s| s.to_string())
    }
}

/// is `path` (root-relative) excluded by the hierarchy of ignore files? Deeper files take precedence.
fn hierarchy_match(ignores: &BTreeMap<String, Vec<crate::ignore_model::Pattern>>, path: &str, is_dir: bool) -> crate::ignore_model::Match {
    use crate::ignore_model::*;
    // ancestor directories of `path`, deepest first
    let mut dirs: Vec<String> = Vec::new();
    let mut cur = path.to_string();
    while let Some((d, _)) = cur.rsplit_once('/') {
        dirs.push(d.to_string());
        cur = d.to_string();
    }
    dirs.push(String::new());
    for d in dirs {
        if let Some(p) = ignores.get(&d) {
            if let Some(r) = rel_to(&d, path) {
                let m = match_path(p, &r, is_dir);
                if m != Match::None {
                    return m;
                }
            }
        }
    }
    Match::None
}

fn glob_match(globs: &[String], rel_to_cwd: &str) -> Option<bool> {
    // Some(true): whitelisted, Some(false): excluded by a `!` glob or by not matching any positive glob
    use crate::ignore_model::*;
    let text: String = globs.iter().map(|g| format!("{g}\n")).collect();
    let pats = parse_ignore(&text);
    // override semantics: a plain glob whitelists, a `!glob` ignores; last match wins
    let mut m = None;
    for p in &pats {
        if p.matches(rel_to_cwd, false) {
            m = Some(!p.negated);
        }
    }
    match m {
        Some(v) => Some(v),
        None => {
            if pats.iter().any(|p| !p.negated) {
                Some(false)
            } else {
                None
            }
        }
    }
}

/// The set of files (root-relative) the README says are formatted
pub fn selection_model(case: &CliCase, args: &Args) -> (BTreeSet<String>, bool) {
    use crate::ignore_model::Match;
    let ignores = ignore_files(case);
    let mut sel = BTreeSet::new();
    let mut missing = false;
    for f in &args.files {
        let rel = join_rel(&case.cwd, f);
        if case.files.contains_key(&rel) {
            // explicitly named file
            if args.respect_ignores {
                let glob_ok = match &args.globs {
                    None => is_lua_name(&rel),
                    Some(_) => true,
                };
                if !glob_ok || explicit_path_ignored(case, f) {
                    continue;
                }
            }
            sel.insert(rel);
            continue;
        }
        let prefix = if rel.is_empty() { String::new() } else { format!("{rel}/") };
        let is_dir = rel.is_empty() || case.files.keys().any(|k| k.starts_with(&prefix)) || case.dirs.iter().any(|d| d == &rel || d.starts_with(&prefix));
        if !is_dir {
            missing = true;
            continue;
        }
        'files: for k in case.files.keys() {
            let Some(inner) = k.strip_prefix(&prefix) else { continue };
            let comps: Vec<&str> = inner.split('/').collect();
            // hidden entries below the argument
            if !args.allow_hidden && comps.iter().any(|c| c.starts_with('.')) {
                continue;
            }
            // directories on the way down, then the file
            let mut path = rel.clone();
            for (i, c) in comps.iter().enumerate() {
                path = if path.is_empty() { c.to_string() } else { format!("{path}/{c}") };
                let is_last = i + 1 == comps.len();
                if hierarchy_match(&ignores, &path, !is_last) == Match::Ignore {
                    continue 'files;
                }
            }
            let from_cwd = rel_to(&case.cwd, k).unwrap_or_else(|| k.clone());
            let ok = match &args.globs {
                None => is_lua_name(k),
                Some(g) => glob_match(g, &from_cwd) == Some(true),
            };
            if ok {
                sel.insert(k.clone());
            }
        }
    }
    (sel, missing)
}

const C16_IGNORES: [&str; 8] = ["skip.lua\n", "gen/\n", "/top.lua\n", "sub/inner.lua\n", "*.gen.lua\n", "**/deep.lua\n", "*.gen.lua\n!keep.gen.lua\n", "# nothing\n\n"];
const C16_FILES: [&str; 22] = [
    "sub/notes.txt", "gen/readme.md", "a.lua", "top.lua", "skip.lua", "b.luau", "notes.txt", "x.gen.lua", "keep.gen.lua", "sub/inner.lua", "sub/top.lua", "sub/skip.lua", "sub/more/deep.lua", "sub/more/z.lua", "gen/out.lua",
    "gen/sub/out2.lua", ".hidden.lua", ".config/h.lua", "sub/.secret/s.lua", "deep.lua",
    // extensions in another letter case do not match the default globs `**/*.lua` / `**/*.luau`
    "UPPER.LUA", "sub/Mixed.Lua",
];

fn gen_c16(t: &mut Tape, labels: &mut Vec<&'static str>) -> Option<CliCase> {
    let mut case = CliCase::default();
    case.files.insert(".editorconfig".into(), b"root = true\n".to_vec());
    let use_globs = t.chance(60);
    let mut present: Vec<&str> = Vec::new();
    for (i, f) in C16_FILES.iter().enumerate() {
        if t.chance(150) {
            // with --glob: no hidden candidates (known finding KF-C16-glob-overrides-filters)
            if use_globs && f.split('/').any(|c| c.starts_with('.')) {
                continue;
            }
            case.files.insert(f.to_string(), messy_program(i).into_bytes());
            present.push(f);
        }
    }
    if present.is_empty() {
        case.files.insert("a.lua".into(), messy_program(0).into_bytes());
        present.push("a.lua");
    }
    if !use_globs {
        if t.chance(170) {
            case.files.insert(".styluaignore".into(), C16_IGNORES[t.pick(C16_IGNORES.len())].as_bytes().to_vec());
            labels.push("ignore:cwd");
        }
        if t.chance(70) {
            case.files.insert("sub/.styluaignore".into(), ["top.lua\n", "more/\n", "!inner.lua\n", "/skip.lua\n", "deep.lua\n", "more/z.lua\n", "**/z.lua\n!top.lua\n"][t.pick(7)].as_bytes().to_vec());
            labels.push("ignore:nested");
        }
    }
    let mut argv: Vec<String> = Vec::new();
    let check = t.chance(100);
    if check {
        argv.push("--check".into());
        argv.push("--output-format".into());
        argv.push("summary".into());
        argv.push("--color".into());
        argv.push("Never".into());
        labels.push("mode:check-summary");
    } else {
        labels.push("mode:write");
    }
    let respect = t.chance(100);
    if respect {
        argv.push("--respect-ignores".into());
        labels.push("respect-ignores");
    }
    if t.chance(80) {
        argv.push("--allow-hidden".into());
        labels.push("allow-hidden");
    }
    if use_globs {
        let sets: [&[&str]; 5] = [&["*.lua"], &["*.txt", "*.luau"], &["sub/**/*.lua"], &["*.lua", "!*.gen.lua"], &["**/*.lua", "!sub/**"]];
        for g in sets[t.pick(sets.len())] {
            argv.push("--glob".into());
            argv.push(g.to_string());
        }
        labels.push("globs");
    }
    if t.chance(60) {
        argv.push("--num-threads".into());
        argv.push((1 + t.pick(8)).to_string());
    }
    // arguments
    let mut files: Vec<String> = Vec::new();
    match t.pick(5) {
        0 | 1 => files.push(".".into()),
        2 => {
            for d in ["sub", "gen", "sub/more"] {
                if t.chance(140) && present.iter().any(|p| p.starts_with(&format!("{d}/"))) {
                    files.push(d.into());
                }
            }
            for f in &present {
                if !f.contains('/') && t.chance(90) {
                    files.push(f.to_string());
                }
            }
            labels.push("args:dirs-and-files");
        }
        _ => {
            for f in &present {
                if t.chance(110) {
                    // with custom globs and --respect-ignores the README does not say what happens to explicit files
                    if use_globs && respect {
                        continue;
                    }
                    files.push(f.to_string());
                }
            }
            if t.chance(80) && present.iter().any(|p| p.starts_with("sub/")) {
                files.push("sub".into());
                labels.push("args:overlap");
            }
            labels.push("args:explicit-files");
        }
    }
    if files.is_empty() {
        files.push(".".into());
    }
    if t.chance(40) {
        let f0 = files[0].clone();
        files.push(f0);
        labels.push("args:repeat");
    }
    // argument order is part of the input: rotate / reverse
    match t.pick(4) {
        0 => files.reverse(),
        1 => {
            let k = t.pick(files.len().max(1));
            files.rotate_left(k);
        }
        _ => {}
    }
    // the same file under two spellings: `./name` for an explicit file, `.` next to other arguments (every file must
    // still be processed once)
    let mut spelled = false;
    if !use_globs && !respect && t.chance(60) {
        for f in files.iter_mut() {
            if f != "." && t.chance(128) {
                *f = format!("./{f}");
                spelled = true;
            }
        }
        if !files.iter().any(|f| f == ".") && t.chance(128) {
            files.push(".".into());
            spelled = true;
        }
        if spelled {
            labels.push("args:two-spellings");
        }
    }
    // now and then the tool runs from `sub`: ignore files above the working directory still apply
    if !spelled && t.chance(50) && present.iter().any(|p| p.starts_with("sub/")) {
        case.cwd = "sub".into();
        let mut inner: Vec<String> = Vec::new();
        for f in &files {
            if f == "." || f == "sub" {
                inner.push(".".into());
            } else if let Some(r) = f.strip_prefix("sub/") {
                inner.push(r.to_string());
            }
        }
        if inner.is_empty() || inner.iter().any(|f| f == ".") {
            inner = vec![".".into()];
        }
        files = inner;
        labels.push("cwd:sub");
    }
    if use_globs {
        argv.push("--".into());
    }
    argv.extend(files);
    case.argv = argv;
    Some(case)
}

fn c16_oracle(case: &CliCase, run: &CliRun) -> Verdict {
    let args = parse_args(&case.argv);
    let (sel, missing) = selection_model(case, &args);
    let config = sl::Config::default();
    if args.check {
        if let Some(d) = tree_unchanged(run) {
            return Verdict::Fail(format!("--check changed the file system: {d}"));
        }
        let stdout = String::from_utf8_lossy(&run.stdout).to_string();
        let mut listed: Vec<String> = Vec::new();
        for l in stdout.lines() {
            let p = strip_ansi(l);
            if p.is_empty() || p.starts_with('!') || p.starts_with('✓') || p.starts_with('✕') {
                continue;
            }
            listed.push(join_rel(&case.cwd, &p));
        }
        let mut sorted = listed.clone();
        sorted.sort();
        let mut dedup = sorted.clone();
        dedup.dedup();
        if dedup.len() != sorted.len() {
            let dup = sorted.windows(2).find(|w| w[0] == w[1]).map(|w| w[0].clone()).unwrap_or_default();
            return Verdict::Fail(format!("`{dup}` was processed more than once"));
        }
        let got: BTreeSet<String> = dedup.into_iter().collect();
        if got != sel {
            let extra: Vec<&String> = got.difference(&sel).collect();
            let lacking: Vec<&String> = sel.difference(&got).collect();
            return Verdict::Fail(format!("processed files differ from the documented selection: unexpectedly processed {:?}, not processed {:?}", extra, lacking));
        }
    } else {
        for (rel, before) in &run.before {
            if rel.ends_with('/') {
                continue;
            }
            let Some(after) = run.after.get(rel) else { return Verdict::Fail(format!("`{rel}` disappeared")) };
            let changed = after.bytes != before.bytes;
            let should = sel.contains(rel);
            if changed && !should {
                return Verdict::Fail(format!("`{rel}` is not selected by the documented rules but was formatted"));
            }
            if should {
                if let FileClass::Differs(q) = classify_file(&before.bytes, config) {
                    if after.bytes != q.as_bytes() {
                        return Verdict::Fail(format!("`{rel}` is selected by the documented rules but was not formatted"));
                    }
                }
            }
        }
    }
    let want = if missing {
        2
    } else if args.check && !sel.is_empty() {
        1
    } else {
        0
    };
    if run.code != Some(want) {
        return Verdict::Fail(format!("exit status {:?}, expected {want}; stderr: {}", run.code, String::from_utf8_lossy(&run.stderr).lines().next().unwrap_or("")));
    }
    let candidates = case.files.keys().filter(|k| !k.ends_with(".styluaignore") && !k.ends_with(".editorconfig")).count();
    Verdict::Pass { nontrivial: !sel.is_empty() && sel.len() < candidates }
}

pub static C16: CliProp = CliProp {
    id: "C16",
    rule: "E3: trees drawn from 18 candidate paths (.lua, .luau, .txt, hidden files and directories, nested directories), every candidate unformatted so that 'changed' = 'processed'; `.styluaignore` at the working directory, nested below it and (tool started in `sub`) above it, with the pattern forms name, dir/, /anchored, dir/name, *.ext, **/name, !negation, comments; arguments `.`, directories, explicit files, overlaps, repeats; --glob lists (plain, multiple, nested, negated), --respect-ignores, --allow-hidden, --num-threads; write mode or --check --output-format summary. Model (README + gitignore semantics for the stated pattern subset): directory traversal selects files matching the globs (default *.lua / *.luau) that are not hidden (unless --allow-hidden) and not excluded by the ignore files of any ancestor directory (deeper files first; an excluded directory is not entered); an explicitly named file is selected unless --respect-ignores excludes it; every selected file is processed exactly once (summary lists it once / its bytes become the library's output); every other file keeps its bytes; exit status 2 only for a missing argument. Non-trivial: some but not all candidates are selected.",
    gen_case: gen_c16,
    oracle: c16_oracle,
    quick_cases: 16_000,
    thorough_cases: 300_000,
    tape_len: 300,
    assumptions: &[
        "no .gitignore / .ignore files in the tree; no ignored directory is passed explicitly",
        "with --glob the tree has no hidden entries and no ignore files (known finding KF-C16-glob-overrides-filters: a whitelisting glob overrides both filters)",
        "explicit files are not combined with custom globs plus --respect-ignores (the README does not define that case)",
    ],
    extra: None,
    exclude: None,
};


// ------------------------------------------------------------------------------------------
// C15: configuration resolution

const LEVELS: [&str; 5] = ["", "outer", "outer/cwd", "outer/cwd/sub", "outer/cwd/sub/subsub"];
const C15_CWD: &str = "outer/cwd";
const TOML_NAMES: [&str; 2] = ["stylua.toml", ".stylua.toml"];

#[derive(Debug, Clone, Default)]
struct EcSection {
    glob: String,
    props: Vec<(String, String)>,
}

fn parse_editorconfig(text: &str) -> (bool, Vec<EcSection>) {
    let mut root = false;
    let mut sections: Vec<EcSection> = Vec::new();
    for line in text.lines() {
        let l = line.trim();
        if l.is_empty() || l.starts_with('#') || l.starts_with(';') {
            continue;
        }
        if l.starts_with('[') && l.ends_with(']') {
            sections.push(EcSection { glob: l[1..l.len() - 1].to_string(), props: Vec::new() });
        } else if let Some((k, v)) = l.split_once('=') {
            let (k, v) = (k.trim().to_ascii_lowercase(), v.trim().to_string());
            match sections.last_mut() {
                Some(s) => s.props.push((k, v)),
                None => {
                    if k == "root" && v.eq_ignore_ascii_case("true") {
                        root = true;
                    }
                }
            }
        }
    }
    (root, sections)
}

fn ec_glob_matches(glob: &str, file_name: &str) -> bool {
    // only slash-free globs are generated: they match the file name in any directory
    crate::ignore_model::seg_match(glob, file_name)
}

/// EditorConfig properties for a file in directory `dir` (root-relative) named `name`
fn editorconfig_props(case: &CliCase, dir: &str, name: &str) -> BTreeMap<String, String> {
    // collect .editorconfig files from the file's directory upwards until one declares root = true
    let mut chain: Vec<Vec<EcSection>> = Vec::new();
    let mut cur = dir.to_string();
    loop {
        let path = if cur.is_empty() { ".editorconfig".to_string() } else { format!("{cur}/.editorconfig") };
        if let Some(bytes) = case.files.get(&path) {
            let (root, sections) = parse_editorconfig(&String::from_utf8_lossy(bytes));
            chain.push(sections);
            if root {
                break;
            }
        }
        match cur.rsplit_once('/') {
            Some((p, _)) => cur = p.to_string(),
            None => {
                if cur.is_empty() {
                    break;
                }
                cur = String::new();
            }
        }
    }
    let mut props = BTreeMap::new();
    for sections in chain.iter().rev() {
        for s in sections {
            if ec_glob_matches(&s.glob, name) {
                for (k, v) in &s.props {
                    props.insert(k.clone(), v.clone());
                }
            }
        }
    }
    props
}

fn apply_editorconfig(mut c: sl::Config, p: &BTreeMap<String, String>) -> sl::Config {
    let get = |k: &str| p.get(k).map(|v| v.to_ascii_lowercase());
    match get("end_of_line").as_deref() {
        Some("lf") | Some("cr") => c.line_endings = sl::LineEndings::Unix,
        Some("crlf") => c.line_endings = sl::LineEndings::Windows,
        _ => {}
    }
    match get("indent_size").as_deref() {
        Some("tab") => {
            if let Some(w) = get("tab_width").and_then(|v| v.parse::<usize>().ok()) {
                c.indent_width = w;
            }
        }
        Some(v) => {
            if let Ok(w) = v.parse::<usize>() {
                c.indent_width = w;
            }
        }
        None => {}
    }
    match get("indent_style").as_deref() {
        Some("tab") => c.indent_type = sl::IndentType::Tabs,
        Some("space") => c.indent_type = sl::IndentType::Spaces,
        _ => {}
    }
    match get("max_line_length").as_deref() {
        Some("off") => c.column_width = usize::MAX,
        Some(v) => {
            if let Ok(w) = v.parse::<usize>() {
                c.column_width = w;
            }
        }
        None => {}
    }
    match get("quote_type").as_deref() {
        Some("double") => c.quote_style = sl::QuoteStyle::AutoPreferDouble,
        Some("single") => c.quote_style = sl::QuoteStyle::AutoPreferSingle,
        _ => {}
    }
    match get("call_parentheses").as_deref() {
        Some("always") => c.call_parentheses = sl::CallParenType::Always,
        Some("nosinglestring") => c.call_parentheses = sl::CallParenType::NoSingleString,
        Some("nosingletable") => c.call_parentheses = sl::CallParenType::NoSingleTable,
        Some("none") => c.call_parentheses = sl::CallParenType::None,
        _ => {}
    }
    match get("space_after_function_names").as_deref() {
        Some("always") => c.space_after_function_names = sl::SpaceAfterFunctionNames::Always,
        Some("definitions") => c.space_after_function_names = sl::SpaceAfterFunctionNames::Definitions,
        Some("calls") => c.space_after_function_names = sl::SpaceAfterFunctionNames::Calls,
        Some("never") => c.space_after_function_names = sl::SpaceAfterFunctionNames::Never,
        _ => {}
    }
    match get("collapse_simple_statement").as_deref() {
        Some("never") => c.collapse_simple_statement = sl::CollapseSimpleStatement::Never,
        Some("functiononly") => c.collapse_simple_statement = sl::CollapseSimpleStatement::FunctionOnly,
        Some("conditionalonly") => c.collapse_simple_statement = sl::CollapseSimpleStatement::ConditionalOnly,
        Some("always") => c.collapse_simple_statement = sl::CollapseSimpleStatement::Always,
        _ => {}
    }
    match get("sort_requires").as_deref() {
        Some("true") => c.sort_requires = sl::SortRequiresConfig { enabled: true },
        Some("false") => c.sort_requires = sl::SortRequiresConfig { enabled: false },
        _ => {}
    }
    c
}

fn toml_in(case: &CliCase, dir: &str) -> Option<sl::Config> {
    for n in TOML_NAMES {
        let p = if dir.is_empty() { n.to_string() } else { format!("{dir}/{n}") };
        if let Some(b) = case.files.get(&p) {
            return toml_config(&String::from_utf8_lossy(b));
        }
    }
    None
}

/// minimal reader for the stylua.toml files this harness writes (key = value lines and [sort_requires])
fn toml_config(text: &str) -> Option<sl::Config> {
    let mut o = OptCfg::default();
    let mut in_sort = false;
    for line in text.lines() {
        let l = line.trim();
        if l.is_empty() || l.starts_with('#') {
            continue;
        }
        if l == "[sort_requires]" {
            in_sort = true;
            continue;
        }
        let (k, v) = l.split_once('=')?;
        let (k, v) = (k.trim(), v.trim().trim_matches('"'));
        if in_sort {
            if k == "enabled" {
                o.sort_requires = Some(v == "true");
            }
            continue;
        }
        use crate::cfg::*;
        match k {
            "syntax" => o.syntax = Syntax::from_name(v),
            "column_width" => o.column_width = v.parse().ok(),
            "indent_width" => o.indent_width = v.parse().ok(),
            "line_endings" => o.line_endings = parse_enum(&[Endings::Unix, Endings::Windows], v),
            "indent_type" => o.indent_type = parse_enum(&[Indent::Tabs, Indent::Spaces], v),
            "quote_style" => o.quote_style = parse_enum(&QUOTES, v),
            "call_parentheses" => o.call_parentheses = parse_enum(&CALLPARENS, v),
            "collapse_simple_statement" => o.collapse = parse_enum(&COLLAPSE, v),
            "space_after_function_names" => o.space_after = parse_enum(&SPACEAFTER, v),
            _ => return None,
        }
    }
    Some(o.apply(sl::Config::default()))
}

/// The configuration the README says applies to a target in directory `dir` (root-relative) named `name`
pub fn resolve_config(case: &CliCase, args: &Args, dir: &str, name: &str) -> Option<sl::Config> {
    let overrides = |c: sl::Config| args.opts.apply(c);
    if let Some(p) = &args.config_path {
        let rel = join_rel(&case.cwd, p);
        let text = String::from_utf8_lossy(case.files.get(&rel)?).to_string();
        return toml_config(&text).map(overrides);
    }
    // nearest stylua.toml / .stylua.toml walking up from the file's directory
    let mut cur = dir.to_string();
    loop {
        if let Some(c) = toml_in(case, &cur) {
            return Some(overrides(c));
        }
        if cur == case.cwd && !args.search_parents {
            break;
        }
        match cur.rsplit_once('/') {
            Some((p, _)) => cur = p.to_string(),
            None => {
                if cur.is_empty() {
                    break;
                }
                cur = String::new();
            }
        }
    }
    if args.search_parents {
        // $XDG_CONFIG_HOME, $XDG_CONFIG_HOME/stylua, $HOME/.config, $HOME/.config/stylua
        let mut places: Vec<String> = Vec::new();
        if let Some(x) = case.env.get("XDG_CONFIG_HOME") {
            let x = x.trim_start_matches("$ROOT/").to_string();
            places.push(x.clone());
            places.push(format!("{x}/stylua"));
        }
        if let Some(h) = case.env.get("HOME") {
            let h = h.trim_start_matches("$ROOT/").to_string();
            places.push(format!("{h}/.config"));
            places.push(format!("{h}/.config/stylua"));
        }
        for p in places {
            if let Some(c) = toml_in(case, &p) {
                return Some(overrides(c));
            }
        }
    }
    let base = overrides(sl::Config::default());
    if args.no_editorconfig {
        return Some(base);
    }
    let props = editorconfig_props(case, dir, name);
    if props.is_empty() {
        return Some(base);
    }
    Some(overrides(apply_editorconfig(base, &props)))
}

fn distinct_cfg(t: &mut Tape, width: usize) -> OptCfg {
    // every configuration file gets its own column width, so the applied one is recognisable
    let mut o = gen_optcfg(t, false);
    o.column_width = Some(width);
    o
}

fn gen_editorconfig(t: &mut Tape, root_flag: bool) -> String {
    let mut s = String::new();
    if root_flag {
        s.push_str("root = true\n\n");
    }
    let nsec = t.pick(3);
    for _ in 0..nsec {
        let glob = ["*", "*.lua", "t.lua", "*.luau", "u.lua"][t.pick(5)];
        s.push_str(&format!("[{glob}]\n"));
        let n = 1 + t.pick(4);
        for _ in 0..n {
            let line = match t.pick(12) {
                0 => "indent_style = space".to_string(),
                1 => "indent_style = tab".to_string(),
                2 => format!("indent_size = {}", [2, 3, 8][t.pick(3)]),
                3 => format!("indent_size = tab\ntab_width = {}", [2, 6][t.pick(2)]),
                4 => "end_of_line = crlf".to_string(),
                5 => format!("max_line_length = {}", [30, 50, 70][t.pick(3)]),
                6 => "max_line_length = off".to_string(),
                7 => format!("quote_type = {}", ["single", "double", "auto"][t.pick(3)]),
                8 => format!("call_parentheses = {}", ["none", "NoSingleTable", "always", "nosinglestring"][t.pick(4)]),
                9 => format!("space_after_function_names = {}", ["always", "calls", "definitions", "never"][t.pick(4)]),
                10 => format!("collapse_simple_statement = {}", ["always", "FunctionOnly", "conditionalonly"][t.pick(3)]),
                _ => "sort_requires = true".to_string(),
            };
            s.push_str(&line);
            s.push('\n');
        }
        s.push('\n');
    }
    s
}

fn gen_c15(t: &mut Tape, labels: &mut Vec<&'static str>) -> Option<CliCase> {
    let mut case = CliCase::default();
    case.cwd = C15_CWD.to_string();
    for d in LEVELS {
        if !d.is_empty() {
            case.dirs.push(d.to_string());
        }
    }
    for d in ["xdg/stylua", "home/.config/stylua", "conf"] {
        case.dirs.push(d.to_string());
    }
    // toml files
    let places: [(&str, &str); 9] = [
        ("", "toml:above-cwd"),
        ("outer", "toml:above-cwd"),
        ("outer/cwd", "toml:at-cwd"),
        ("outer/cwd/sub", "toml:below-cwd"),
        ("outer/cwd/sub/subsub", "toml:below-cwd"),
        ("xdg", "toml:xdg"),
        ("xdg/stylua", "toml:xdg"),
        ("home/.config", "toml:home"),
        ("home/.config/stylua", "toml:home"),
    ];
    for (i, (dir, label)) in places.iter().enumerate() {
        if t.chance(70) {
            let name = TOML_NAMES[t.pick(2)];
            let cfg = distinct_cfg(t, 41 + i);
            let p = if dir.is_empty() { name.to_string() } else { format!("{dir}/{name}") };
            case.files.insert(p, cfg.to_toml().into_bytes());
            labels.push(label);
        }
    }
    // editorconfig files: the sandbox root always stops the search
    case.files.insert(".editorconfig".into(), gen_editorconfig(t, true).into_bytes());
    for d in &LEVELS[1..] {
        if t.chance(70) {
            let root_flag = t.chance(30);
            case.files.insert(format!("{d}/.editorconfig"), gen_editorconfig(t, root_flag).into_bytes());
            labels.push("editorconfig");
        }
    }
    case.env.insert("HOME".into(), "$ROOT/home".into());
    if t.chance(200) {
        case.env.insert("XDG_CONFIG_HOME".into(), "$ROOT/xdg".into());
    }
    // targets
    for d in ["", "sub/", "sub/subsub/"] {
        case.files.insert(format!("{C15_CWD}/{d}t.lua"), crate::cli::PROBE.as_bytes().to_vec());
    }
    // a second file name next to two of them: EditorConfig sections select by name, so files of one directory can
    // resolve to different configurations within one run
    for d in ["", "sub/"] {
        case.files.insert(format!("{C15_CWD}/{d}u.lua"), crate::cli::PROBE.as_bytes().to_vec());
    }
    let mut argv: Vec<String> = Vec::new();
    if t.chance(50) {
        let cfg = distinct_cfg(t, 55);
        case.files.insert("conf/custom.toml".into(), cfg.to_toml().into_bytes());
        argv.push("--config-path".into());
        argv.push("../../conf/custom.toml".into());
        labels.push("config-path");
    }
    if t.chance(100) {
        argv.push("--search-parent-directories".into());
        labels.push("search-parent-directories");
    }
    if t.chance(60) {
        argv.push("--no-editorconfig".into());
        labels.push("no-editorconfig");
    }
    if t.chance(110) {
        // command line overrides (a few)
        let mut o = OptCfg::default();
        match t.pick(5) {
            0 => o.column_width = Some(33),
            1 => o.quote_style = Some(crate::cfg::Quotes::ForceSingle),
            2 => o.indent_type = Some(crate::cfg::Indent::Spaces),
            3 => {
                o.call_parentheses = Some(crate::cfg::CallParens::None);
                o.indent_width = Some(5);
            }
            _ => o.sort_requires = Some(true),
        }
        argv.extend(o.to_flags());
        labels.push("cli-overrides");
    }
    match t.pick(8) {
        7 => {
            // a symbolic link in the working directory to a file two levels down (whose own name is not a Lua name):
            // the search starts where the link is, and EditorConfig sections see the link's name
            let mut b = crate::cli::SYMLINK_MARK.to_vec();
            b.extend_from_slice(b"sub/subsub/real.dat");
            case.files.insert(format!("{C15_CWD}/sub/subsub/real.dat"), crate::cli::PROBE.as_bytes().to_vec());
            case.files.insert(format!("{C15_CWD}/link.lua"), b);
            if t.chance(128) {
                argv.push("link.lua".into());
                labels.push("target:symlink-explicit");
            } else {
                // reached by walking the working directory together with the regular files
                argv.push(".".into());
                labels.push("target:symlink-in-directory");
            }
        }
        0 => {
            argv.push("t.lua".into());
            argv.push("u.lua".into());
            argv.push("sub/t.lua".into());
            argv.push("sub/u.lua".into());
            argv.push("sub/subsub/t.lua".into());
            labels.push("target:explicit-files");
        }
        6 => {
            // a file outside the working directory's subtree, named by its absolute path. The README does not say where
            // the search for stylua.toml ends for such a file, so none lies on its way up; what is documented is that
            // the XDG / HOME locations are only used with --search-parent-directories, and the EditorConfig rules
            case.dirs.push("elsewhere".into());
            case.files.insert("elsewhere/t.lua".into(), crate::cli::PROBE.as_bytes().to_vec());
            case.files.remove("stylua.toml");
            case.files.remove(".stylua.toml");
            argv.push("$ROOT/elsewhere/t.lua".into());
            labels.push("target:absolute-outside-cwd");
        }
        1 => {
            argv.push(".".into());
            labels.push("target:dot");
        }
        2 => {
            argv.push("sub".into());
            labels.push("target:directory");
        }
        3 => {
            argv.push("sub/subsub/t.lua".into());
            labels.push("target:nested-file");
        }
        4 => {
            case.stdin = Some(crate::cli::PROBE.as_bytes().to_vec());
            argv.push("--stdin-filepath".into());
            argv.push(["sub/t.lua", "sub/subsub/other.lua", "t.lua"][t.pick(3)].into());
            argv.push("-".into());
            labels.push("target:stdin-with-filepath");
        }
        _ => {
            case.stdin = Some(crate::cli::PROBE.as_bytes().to_vec());
            argv.push("-".into());
            labels.push("target:stdin");
        }
    }
    case.argv = argv;
    Some(case)
}

fn c15_oracle(case: &CliCase, run: &CliRun) -> Verdict {
    let args = parse_args(&case.argv);
    // the text the case carries (the probe program when it comes from the generator)
    let stdin_text = case.stdin.as_ref().map(|b| String::from_utf8_lossy(b).to_string()).unwrap_or_default();
    let describe = |c: &sl::Config| format!("width {} indent {:?}/{} quotes {:?} calls {:?} collapse {:?} spaces {:?} endings {:?} sort {}", c.column_width, c.indent_type, c.indent_width, c.quote_style, c.call_parentheses, c.collapse_simple_statement, c.space_after_function_names, c.line_endings, c.sort_requires.enabled);
    if case.stdin.is_some() {
        let (dir, name) = match &args.stdin_filepath {
            Some(p) => {
                let rel = join_rel(&case.cwd, p);
                match rel.rsplit_once('/') {
                    Some((d, n)) => (d.to_string(), n.to_string()),
                    None => (String::new(), rel),
                }
            }
            None => (case.cwd.clone(), "*.lua".to_string()),
        };
        let Some(cfg) = resolve_config(case, &args, &dir, &name) else { return Verdict::Skip("model cannot resolve") };
        let Some(want) = lib_format(&stdin_text, cfg) else { return Verdict::Skip("probe does not format") };
        if run.stdout != want.as_bytes() {
            return Verdict::Fail(format!("stdin was not formatted with the documented configuration ({}); exit {:?}; stderr: {}", describe(&cfg), run.code, String::from_utf8_lossy(&run.stderr).lines().next().unwrap_or("")));
        }
        return Verdict::Pass { nontrivial: true };
    }
    let (sel, _) = simple_selection(case, &args);
    let mut distinct = BTreeSet::new();
    for rel in sel.keys() {
        let (dir, name) = match rel.rsplit_once('/') {
            Some((d, n)) => (d.to_string(), n.to_string()),
            None => (String::new(), rel.clone()),
        };
        let Some(cfg) = resolve_config(case, &args, &dir, &name) else { return Verdict::Skip("model cannot resolve") };
        // a symbolic link: the text is the target's, and so is the file that gets rewritten
        let rel = match case.files[rel].strip_prefix(crate::cli::SYMLINK_MARK) {
            Some(target) => join_rel(&dir, &String::from_utf8_lossy(target)),
            None => rel.clone(),
        };
        let rel = &rel;
        let text = String::from_utf8_lossy(&case.files[rel]).to_string();
        let Some(want) = lib_format(&text, cfg) else { return Verdict::Skip("probe does not format") };
        distinct.insert(describe(&cfg));
        let got = &run.after[rel].bytes;
        if got != want.as_bytes() {
            return Verdict::Fail(format!("`{rel}` was not formatted with the documented configuration ({}); exit {:?}; stderr: {}", describe(&cfg), run.code, String::from_utf8_lossy(&run.stderr).lines().next().unwrap_or("")));
        }
    }
    if run.code != Some(0) {
        return Verdict::Fail(format!("exit status {:?}; stderr: {}", run.code, String::from_utf8_lossy(&run.stderr).lines().next().unwrap_or("")));
    }
    Verdict::Pass { nontrivial: true }
}

pub static C15: CliProp = CliProp {
    id: "C15",
    rule: "E3: sandbox root/outer/cwd/sub/subsub with the working directory at `cwd`; `stylua.toml` or `.stylua.toml` at any subset of {root, outer, cwd, sub, subsub, $XDG_CONFIG_HOME, $XDG_CONFIG_HOME/stylua, $HOME/.config, $HOME/.config/stylua}, each with its own recognisable configuration (unique column width plus random options); `.editorconfig` files at any subset of the levels with sections `[*]`, `[*.lua]`, `[t.lua]`, `[*.luau]`, the documented keys and `root = true`; --config-path, --search-parent-directories, --no-editorconfig, command-line format flags; targets: explicit files at three depths, `.`, a directory, stdin with and without --stdin-filepath. Oracle: a probe program whose formatted text differs for every option value; the model resolves the configuration as documented (forced file; nearest toml up to the working directory; with the flag on to the root and then the XDG / HOME locations; else EditorConfig unless disabled, nearer files and later sections first, stopping at root = true; else defaults; command-line flags on top) and the bytes on disk / on stdout must equal the library's output for it. Non-trivial: every case (each one decides among several configuration sources).",
    gen_case: gen_c15,
    oracle: c15_oracle,
    quick_cases: 16_000,
    thorough_cases: 300_000,
    tape_len: 400,
    assumptions: &["targets lie in the working directory's subtree; paths contain no `..` (except the --config-path value); a directory holds at most one of stylua.toml / .stylua.toml", "EditorConfig sections use slash-free globs only"],
    extra: None,
    exclude: None,
};


// ------------------------------------------------------------------------------------------
// C20: an option means the same thing wherever it is written (enumeration)

struct Carrier {
    what: String,
    case: CliCase,
    expect: sl::Config,
    /// a second file of the same run (`u.lua`) and the configuration expected for it
    also: Option<sl::Config>,
}

fn base_case() -> CliCase {
    let mut case = CliCase::default();
    case.files.insert(".editorconfig".into(), b"root = true\n".to_vec());
    case.files.insert("t.lua".into(), crate::cli::PROBE.as_bytes().to_vec());
    case.argv = vec!["t.lua".into()];
    case
}

fn case_variants(s: &str) -> Vec<String> {
    let mut v = vec![s.to_string(), s.to_ascii_lowercase(), s.to_ascii_uppercase()];
    v.dedup();
    v
}

fn c20_carriers() -> Vec<Carrier> {
    use crate::cfg::*;
    let mut out: Vec<Carrier> = Vec::new();
    let d = sl::Config::default();
    let mut add = |what: String, toml: Option<String>, flags: Option<Vec<String>>, ec: Option<String>, expect: sl::Config| {
        let mut case = base_case();
        if let Some(t) = toml {
            case.files.insert("stylua.toml".into(), t.into_bytes());
        }
        if let Some(f) = flags {
            let mut argv = f;
            argv.push("t.lua".into());
            case.argv = argv;
        }
        if let Some(e) = ec {
            case.files.insert(".editorconfig".into(), format!("root = true\n\n[*.lua]\n{e}\n").into_bytes());
        }
        out.push(Carrier { what, case, expect, also: None });
    };
    // one option at a time, through OptCfg for toml and flags
    let mut single: Vec<(String, OptCfg)> = Vec::new();
    for s in Syntax::ALL {
        single.push((format!("syntax={}", s.name()), OptCfg { syntax: Some(s), ..OptCfg::default() }));
    }
    for w in [1usize, 20, 80, 120, 500] {
        single.push((format!("column_width={w}"), OptCfg { column_width: Some(w), ..OptCfg::default() }));
    }
    for v in [Endings::Unix, Endings::Windows] {
        single.push((format!("line_endings={v:?}"), OptCfg { line_endings: Some(v), ..OptCfg::default() }));
    }
    for v in [Indent::Tabs, Indent::Spaces] {
        single.push((format!("indent_type={v:?}"), OptCfg { indent_type: Some(v), indent_width: Some(3), ..OptCfg::default() }));
    }
    for w in [1usize, 2, 3, 4, 8] {
        single.push((format!("indent_width={w}"), OptCfg { indent_type: Some(Indent::Spaces), indent_width: Some(w), ..OptCfg::default() }));
    }
    // the width of an indentation level also matters under tab indentation (it decides what fits the column width)
    for w in [1usize, 2, 3, 4, 8] {
        single.push((format!("indent_width={w}(tabs)"), OptCfg { indent_type: Some(Indent::Tabs), indent_width: Some(w), ..OptCfg::default() }));
    }
    for v in QUOTES {
        single.push((format!("quote_style={v:?}"), OptCfg { quote_style: Some(v), ..OptCfg::default() }));
    }
    for v in CALLPARENS {
        single.push((format!("call_parentheses={v:?}"), OptCfg { call_parentheses: Some(v), ..OptCfg::default() }));
    }
    for v in COLLAPSE {
        single.push((format!("collapse_simple_statement={v:?}"), OptCfg { collapse: Some(v), ..OptCfg::default() }));
    }
    for v in SPACEAFTER {
        single.push((format!("space_after_function_names={v:?}"), OptCfg { space_after: Some(v), ..OptCfg::default() }));
    }
    for v in [true, false] {
        single.push((format!("sort_requires={v}"), OptCfg { sort_requires: Some(v), ..OptCfg::default() }));
    }
    for (what, o) in &single {
        let expect = o.apply(d);
        add(format!("{what} via stylua.toml"), Some(o.to_toml()), None, None, expect);
        if o.sort_requires != Some(false) {
            let flags = o.to_flags();
            // canonical, lower and upper case spelling of every value
            for variant in 0..3 {
                let f: Vec<String> = flags
                    .iter()
                    .map(|a| {
                        if a.starts_with("--") || a.chars().all(|c| c.is_ascii_digit()) {
                            a.clone()
                        } else {
                            case_variants(a).get(variant).cloned().unwrap_or_else(|| a.clone())
                        }
                    })
                    .collect();
                add(format!("{what} via flags (case variant {variant})"), None, Some(f), None, expect);
            }
            // the flag next to a configuration file that does not mention the option (found file / forced file)
            add(format!("{what} via flags over a found stylua.toml"), Some("indent_width = 4\n".to_string()), Some(o.to_flags()), None, expect);
            let mut forced = vec!["--config-path".to_string(), "stylua.toml".to_string()];
            forced.extend(o.to_flags());
            add(format!("{what} via flags over --config-path"), Some("indent_width = 4\n".to_string()), Some(forced), None, expect);
        }
    }
    // EditorConfig keys
    let mut ec = |what: &str, text: &str, o: OptCfg| {
        let expect = o.apply(d);
        let mut case = base_case();
        case.files.insert(".editorconfig".into(), format!("root = true\n\n[*.lua]\n{text}\n").into_bytes());
        out.push(Carrier { what: format!("{what} via .editorconfig"), case, expect, also: None });
    };
    ec("indent_style=tab", "indent_style = tab", OptCfg { indent_type: Some(Indent::Tabs), ..OptCfg::default() });
    ec("indent_style=space", "indent_style = space", OptCfg { indent_type: Some(Indent::Spaces), ..OptCfg::default() });
    for w in [1usize, 2, 3, 8] {
        ec(&format!("indent_size={w}"), &format!("indent_style = space\nindent_size = {w}"), OptCfg { indent_type: Some(Indent::Spaces), indent_width: Some(w), ..OptCfg::default() });
        ec(&format!("tab_width={w}"), &format!("indent_style = space\nindent_size = tab\ntab_width = {w}"), OptCfg { indent_type: Some(Indent::Spaces), indent_width: Some(w), ..OptCfg::default() });
    }
    for w in [1usize, 2, 3, 8] {
        // EditorConfig: with tab indentation indent_size is the width of one level (tab_width defaults to it)
        ec(&format!("indent_size={w}(tabs)"), &format!("indent_style = tab\nindent_size = {w}"), OptCfg { indent_type: Some(Indent::Tabs), indent_width: Some(w), ..OptCfg::default() });
        ec(&format!("tab_width={w}(tabs)"), &format!("indent_style = tab\nindent_size = tab\ntab_width = {w}"), OptCfg { indent_type: Some(Indent::Tabs), indent_width: Some(w), ..OptCfg::default() });
    }
    ec("end_of_line=lf", "end_of_line = lf", OptCfg { line_endings: Some(Endings::Unix), ..OptCfg::default() });
    ec("end_of_line=crlf", "end_of_line = crlf", OptCfg { line_endings: Some(Endings::Windows), ..OptCfg::default() });
    ec("end_of_line=cr", "end_of_line = cr", OptCfg { line_endings: Some(Endings::Unix), ..OptCfg::default() });
    for w in [20usize, 80, 500] {
        ec(&format!("max_line_length={w}"), &format!("max_line_length = {w}"), OptCfg { column_width: Some(w), ..OptCfg::default() });
    }
    ec("max_line_length=off", "max_line_length = off", OptCfg { column_width: Some(usize::MAX), ..OptCfg::default() });
    ec("quote_type=single", "quote_type = single", OptCfg { quote_style: Some(Quotes::AutoPreferSingle), ..OptCfg::default() });
    ec("quote_type=double", "quote_type = double", OptCfg { quote_style: Some(Quotes::AutoPreferDouble), ..OptCfg::default() });
    ec("quote_type=auto", "quote_type = auto", OptCfg::default());
    for v in [CallParens::Always, CallParens::NoSingleString, CallParens::NoSingleTable, CallParens::None] {
        for text in case_variants(&format!("{v:?}")) {
            ec(&format!("call_parentheses={text}"), &format!("call_parentheses = {text}"), OptCfg { call_parentheses: Some(v), ..OptCfg::default() });
        }
    }
    for v in SPACEAFTER {
        ec(&format!("space_after_function_names={v:?}"), &format!("space_after_function_names = {v:?}"), OptCfg { space_after: Some(v), ..OptCfg::default() });
    }
    for v in COLLAPSE {
        ec(&format!("collapse_simple_statement={v:?}"), &format!("collapse_simple_statement = {v:?}"), OptCfg { collapse: Some(v), ..OptCfg::default() });
    }
    ec("sort_requires=true", "sort_requires = true", OptCfg { sort_requires: Some(true), ..OptCfg::default() });
    ec("sort_requires=false", "sort_requires = false", OptCfg { sort_requires: Some(false), ..OptCfg::default() });
    // EditorConfig sections select by file name: two files of one directory, formatted in one run, each get the
    // value of their own section (in both argument orders and through the directory)
    let pairs: [(&str, &str, OptCfg, &str, OptCfg); 4] = [
        ("quote_type", "quote_type = single", OptCfg { quote_style: Some(Quotes::AutoPreferSingle), ..OptCfg::default() }, "quote_type = double", OptCfg { quote_style: Some(Quotes::AutoPreferDouble), ..OptCfg::default() }),
        ("max_line_length", "max_line_length = 40", OptCfg { column_width: Some(40), ..OptCfg::default() }, "max_line_length = 200", OptCfg { column_width: Some(200), ..OptCfg::default() }),
        ("indent_style", "indent_style = space\nindent_size = 2", OptCfg { indent_type: Some(Indent::Spaces), indent_width: Some(2), ..OptCfg::default() }, "indent_style = tab", OptCfg { indent_type: Some(Indent::Tabs), ..OptCfg::default() }),
        ("call_parentheses", "call_parentheses = None", OptCfg { call_parentheses: Some(CallParens::None), ..OptCfg::default() }, "call_parentheses = Always", OptCfg { call_parentheses: Some(CallParens::Always), ..OptCfg::default() }),
    ];
    for (key, text_t, cfg_t, text_u, cfg_u) in pairs {
        for (k, argv) in [vec!["t.lua", "u.lua"], vec!["u.lua", "t.lua"], vec!["."]].into_iter().enumerate() {
            let mut case = base_case();
            case.files.insert("u.lua".into(), crate::cli::PROBE.as_bytes().to_vec());
            case.files.insert(".editorconfig".into(), format!("root = true\n\n[t.lua]\n{text_t}\n\n[u.lua]\n{text_u}\n").into_bytes());
            case.argv = argv.iter().map(|a| a.to_string()).collect();
            out.push(Carrier { what: format!("{key} per file via .editorconfig sections (arguments {k})"), case, expect: cfg_t.apply(d), also: Some(cfg_u.apply(d)) });
        }
    }
    out
}

const MALFORMED: [(&str, &str); 30] = [
    ("misspelt key column_width", "colum_width = 80\n"),
    ("misspelt key line_endings", "line_ending = \"Unix\"\n"),
    ("misspelt key indent_type", "indent_typ = \"Spaces\"\n"),
    ("misspelt key indent_width", "indentwidth = 2\n"),
    ("misspelt key quote_style", "quote_stlye = \"ForceSingle\"\n"),
    ("misspelt key call_parentheses", "call_parenthesis = \"None\"\n"),
    ("misspelt key collapse_simple_statement", "collapse_simple_statements = \"Always\"\n"),
    ("misspelt key space_after_function_names", "space_after_function_name = \"Always\"\n"),
    ("misspelt key syntax", "sintax = \"Lua51\"\n"),
    ("misspelt key inside [sort_requires]", "[sort_requires]\nenable = true\n"),
    ("unknown key inside [sort_requires]", "[sort_requires]\nenabled = true\nstable = true\n"),
    ("misspelt table", "[sort_require]\nenabled = true\n"),
    ("unknown table", "column_width = 80\n\n[unknown]\nkey = 1\n"),
    ("wrong type: column_width string", "column_width = \"80\"\n"),
    ("wrong type: indent_width float", "indent_width = 1.5\n"),
    ("wrong type: indent_type number", "indent_type = 4\n"),
    ("wrong type: quote_style boolean", "quote_style = true\n"),
    ("wrong type: sort_requires.enabled string", "[sort_requires]\nenabled = \"yes\"\n"),
    ("wrong type: sort_requires scalar", "sort_requires = true\n"),
    ("negative column_width", "column_width = -1\n"),
    ("wrong case: indent_type", "indent_type = \"spaces\"\n"),
    ("wrong case: quote_style", "quote_style = \"forcesingle\"\n"),
    ("wrong case: line_endings", "line_endings = \"WINDOWS\"\n"),
    ("unknown value: call_parentheses", "call_parentheses = \"Sometimes\"\n"),
    ("unknown value: collapse_simple_statement", "collapse_simple_statement = \"Functions\"\n"),
    ("unknown value: syntax", "syntax = \"Lua55\"\n"),
    ("duplicate key", "column_width = 80\ncolumn_width = 90\n"),
    ("not TOML at all", "column_width: 80\n"),
    ("upper-case key", "Column_Width = 80\n"),
    ("valid key after an invalid one", "quote_style = \"ForceSingle\"\nnot_an_option = 1\n"),
];

fn c20_extra(rep: &mut crate::run::Reporter, stats: &mut crate::run::Stats, _tier: crate::run::Tier) {
    // the whole listed space is executed on every run
    stats.exhaustive = true;
    let carriers = c20_carriers();
    let results = crate::engine::par_map(&carriers, |_, c| {
        let run = crate::cli::run_cli(&c.case);
        (run, lib_format(crate::cli::PROBE, c.expect))
    });
    for (c, (run, want)) in carriers.iter().zip(results.into_iter()) {
        stats.count("E2-carriers");
        let run = match run {
            Ok(r) => r,
            Err(e) => {
                stats.notes.push(format!("infrastructure: {e}"));
                continue;
            }
        };
        let Some(want) = want else {
            stats.skip("the probe program does not format under this configuration");
            stats.notes.push(format!("probe does not format: {}", c.what));
            continue;
        };
        let got = run.after.get("t.lua").map(|f| f.bytes.clone()).unwrap_or_default();
        let second_ok = match &c.also {
            None => true,
            Some(cfg) => match lib_format(crate::cli::PROBE, *cfg) {
                Some(w) => run.after.get("u.lua").map_or(false, |f| f.bytes == w.as_bytes()),
                None => true,
            },
        };
        if got != want.as_bytes() || run.code != Some(0) || !second_ok {
            let detail = format!("{}: the file on disk is not the library's output for that option value (exit {:?}; stderr: {})", c.what, run.code, String::from_utf8_lossy(&run.stderr).lines().next().unwrap_or(""));
            rep.violation(crate::clirun::replay_value("C20", &c.case, &detail, "E2-carriers", Some(&run)), "E2");
        } else {
            stats.nontrivial.insert(c.case.hash64());
            stats.label(c.what.split(' ').nth(2).unwrap_or("?"));
            if stats.samples.len() < 3 {
                stats.samples.push(serde_json::json!({ "origin": "E2-carriers", "what": c.what, "argv": c.case.argv, "files": c.case.files.iter().filter(|(k, _)| k.as_str() != "t.lua").map(|(k, v)| (k.clone(), String::from_utf8_lossy(v).to_string())).collect::<BTreeMap<_, _>>() }));
            }
        }
    }
    // malformed configuration files: exit 2 and nothing modified; in the cwd file and through --config-path
    let mut mal: Vec<(String, CliCase)> = Vec::new();
    for (what, text) in MALFORMED {
        for via in 0..6 {
            let mut case = base_case();
            case.files.insert("other.lua".into(), messy_program(3).into_bytes());
            match via {
                0 => {
                    case.files.insert("stylua.toml".into(), text.as_bytes().to_vec());
                    case.argv = vec![".".into()];
                }
                1 => {
                    case.files.insert(".stylua.toml".into(), text.as_bytes().to_vec());
                    case.argv = vec!["--check".into(), "t.lua".into(), "other.lua".into()];
                }
                2 => {
                    case.files.insert("conf/my.toml".into(), text.as_bytes().to_vec());
                    case.argv = vec!["--config-path".into(), "conf/my.toml".into(), "t.lua".into()];
                }
                3 => {
                    // found in a parent directory with --search-parent-directories
                    case.cwd = "proj/work".into();
                    for f in ["t.lua", "other.lua"] {
                        if let Some(v) = case.files.remove(f) {
                            case.files.insert(format!("proj/work/{f}"), v);
                        }
                    }
                    case.files.insert("proj/stylua.toml".into(), text.as_bytes().to_vec());
                    case.argv = vec!["--search-parent-directories".into(), "t.lua".into()];
                }
                4 => {
                    // the user-level locations, reached with --search-parent-directories when nothing lies on the way up
                    case.files.insert("xdg/stylua/stylua.toml".into(), text.as_bytes().to_vec());
                    case.env.insert("XDG_CONFIG_HOME".into(), "$ROOT/xdg".into());
                    case.env.insert("HOME".into(), "$ROOT/home".into());
                    case.argv = vec!["--search-parent-directories".into(), "t.lua".into()];
                }
                _ => {
                    case.files.insert("home/.config/.stylua.toml".into(), text.as_bytes().to_vec());
                    case.env.insert("HOME".into(), "$ROOT/home".into());
                    case.argv = vec!["--search-parent-directories".into(), ".".into()];
                }
            }
            mal.push((format!("{what} (carrier {via})"), case));
        }
    }
    let results = crate::engine::par_map(&mal, |_, (_, case)| crate::cli::run_cli(case));
    for ((what, case), run) in mal.iter().zip(results.into_iter()) {
        stats.count("E2-malformed");
        let run = match run {
            Ok(r) => r,
            Err(e) => {
                stats.notes.push(format!("infrastructure: {e}"));
                continue;
            }
        };
        let problem = if run.code != Some(2) {
            Some(format!("exit status {:?} instead of 2", run.code))
        } else {
            tree_unchanged(&run)
        };
        match problem {
            Some(p) => {
                let detail = format!("malformed configuration file accepted: {what}: {p}");
                rep.violation(crate::clirun::replay_value("C20", case, &detail, "E2-malformed", Some(&run)), "E2");
            }
            None => {
                stats.nontrivial.insert(case.hash64());
                if stats.samples.len() < 5 {
                    stats.samples.push(serde_json::json!({ "origin": "E2-malformed", "what": what, "argv": case.argv, "stderr": String::from_utf8_lossy(&run.stderr).lines().next() }));
                }
            }
        }
    }
}

fn gen_none_cli(_t: &mut Tape, _l: &mut Vec<&'static str>) -> Option<CliCase> {
    None
}

pub static C20: CliProp = CliProp {
    id: "C20",
    rule: "E2 (seed independent, complete): every option x every documented value (7 syntaxes, 5 widths, 2 line endings, 2 indent types, 5 indent widths, 4 quote styles, 5 call-parentheses modes, 4 collapse modes, 4 space modes, sort_requires on/off) x every carrier: `stylua.toml`, the command-line flag in canonical / lower / upper case, and the `.editorconfig` key where one exists (indent_style, indent_size, tab_width, end_of_line incl. cr, max_line_length incl. off, quote_type incl. auto, call_parentheses in three spellings, space_after_function_names, collapse_simple_statement, sort_requires). Oracle: the probe program (its formatted text differs for every option value) written back by the tool equals the library's output for that Config, exit 0. Plus 30 malformed `stylua.toml` texts (each key misspelt, wrong types, wrong case, unknown values, unknown / misspelt tables and keys inside [sort_requires], duplicate key, non-TOML) through three carriers (stylua.toml, .stylua.toml, --config-path): exit status 2 and an unchanged tree snapshot. Non-trivial: every executed case.",
    gen_case: gen_none_cli,
    oracle: |_, _| Verdict::Skip("enumeration only"),
    quick_cases: 0,
    thorough_cases: 0,
    tape_len: 8,
    assumptions: &["a malformed file is the only configuration in play"],
    extra: Some(c20_extra),
    exclude: None,
};


// ------------------------------------------------------------------------------------------
// C19: scheduling independence (engine E4)

fn gen_c19(t: &mut Tape, labels: &mut Vec<&'static str>) -> Option<CliCase> {
    let mut case = CliCase::default();
    case.files.insert(".editorconfig".into(), b"root = true\n".to_vec());
    if t.chance(24) {
        // many small files whose names differ only in the extension (`m3.lua` / `m3.luau`), all to be written: workers
        // run side by side for a while, whatever they share by name would collide
        labels.push("many-sibling-pairs");
        let pairs = 30 + t.pick(30);
        for i in 0..pairs {
            case.files.insert(format!("pkg/m{i}.lua"), messy_program(i).into_bytes());
            case.files.insert(format!("pkg/m{i}.luau"), messy_program(i + 1).into_bytes());
        }
        labels.push("mode:write");
        case.argv = vec!["--num-threads".into(), "2".into(), "pkg".into()];
        return Some(case);
    }
    let n = 1 + t.pick(5);
    let mut args: Vec<String> = Vec::new();
    for i in 0..n {
        let name = format!("f{i}.lua");
        let content = match t.pick(6) {
            0 | 1 | 2 => {
                labels.push("file:unformatted");
                messy_program(i)
            }
            3 | 4 => {
                labels.push("file:formatted");
                lib_format(&messy_program(i), sl::Config::default()).unwrap_or_default()
            }
            _ => {
                labels.push("file:unparseable");
                format!("local x{i} = = 1\n")
            }
        };
        case.files.insert(name.clone(), content.into_bytes());
        args.push(name);
    }
    let missing = t.pick(3);
    for k in 0..missing {
        args.push(format!("missing{k}.lua"));
        labels.push("arg:missing-path");
    }
    // argument order is part of the schedule space
    match t.pick(4) {
        0 => args.reverse(),
        1 => {
            let k = t.pick(args.len().max(1));
            args.rotate_left(k);
        }
        2 => {
            if args.len() >= 2 {
                let k = t.pick(args.len() - 1);
                args.swap(k, k + 1);
            }
        }
        _ => {}
    }
    let mut argv: Vec<String> = Vec::new();
    let check = t.chance(180);
    if check {
        argv.push("--check".into());
        labels.push("mode:check");
    } else {
        labels.push("mode:write");
    }
    // the output format decides which thread reports an error and how (the json format writes parse errors itself
    // instead of logging them): the exit status and the files must not depend on it
    match t.pick(6) {
        0 => {
            argv.extend(["--output-format".to_string(), "json".to_string()]);
            labels.push("output-format:json");
        }
        1 if check => {
            argv.extend(["--output-format".to_string(), ["unified", "summary"][t.pick(2)].to_string()]);
            labels.push("output-format:unified/summary");
        }
        _ => {}
    }
    argv.push("--num-threads".into());
    argv.push("2".into());
    argv.extend(args);
    case.argv = argv;
    Some(case)
}

/// all merges of two sequences that keep the order inside each
fn merges(a: &[String], b: &[String], limit: usize) -> Vec<Vec<String>> {
    fn go(a: &[String], b: &[String], cur: &mut Vec<String>, out: &mut Vec<Vec<String>>, limit: usize) {
        if out.len() >= limit {
            return;
        }
        if a.is_empty() && b.is_empty() {
            out.push(cur.clone());
            return;
        }
        if !a.is_empty() {
            cur.push(a[0].clone());
            go(&a[1..], b, cur, out, limit);
            cur.pop();
        }
        if !b.is_empty() {
            cur.push(b[0].clone());
            go(a, &b[1..], cur, out, limit);
            cur.pop();
        }
    }
    let mut out = Vec::new();
    go(a, b, &mut Vec::new(), &mut out, limit);
    out
}

fn c19_oracle(case: &CliCase, first: &CliRun) -> Verdict {
    let args = parse_args(&case.argv);
    let config = sl::Config::default();
    let (sel, missing) = simple_selection(case, &args);
    let mut any_error = missing;
    let mut any_diff = false;
    let mut expected_files: BTreeMap<String, Vec<u8>> = BTreeMap::new();
    for (rel, bytes) in &case.files {
        let mut after = bytes.clone();
        if sel.contains_key(rel) {
            match classify_file(bytes, config) {
                FileClass::Error => any_error = true,
                FileClass::Differs(q) => {
                    any_diff = true;
                    if !args.check {
                        after = q.into_bytes();
                    }
                }
                FileClass::Formatted => {}
            }
        }
        expected_files.insert(rel.clone(), after);
    }
    let want = if any_error {
        2
    } else if args.check && any_diff {
        1
    } else {
        0
    };
    let judge = |run: &CliRun, what: &str| -> Option<String> {
        if run.code != Some(want) {
            return Some(format!("{what}: exit status {:?}, expected {want}", run.code));
        }
        for (rel, bytes) in &expected_files {
            if run.after.get(rel).map(|f| &f.bytes) != Some(bytes) {
                return Some(format!("{what}: final contents of `{rel}` differ from the expected result"));
            }
        }
        None
    };
    if let Some(d) = judge(first, "--num-threads 2") {
        return Verdict::Fail(d);
    }
    // thread-count sweep
    for n in [1usize, 3, 4, 8, 16] {
        let mut c = case.clone();
        if let Some(p) = c.argv.iter().position(|a| a == "--num-threads") {
            c.argv[p + 1] = n.to_string();
        }
        match crate::cli::run_cli(&c) {
            Ok(run) => {
                if let Some(d) = judge(&run, &format!("--num-threads {n}")) {
                    return Verdict::Fail(d);
                }
            }
            Err(e) => return Verdict::Skip(Box::leak(format!("infrastructure: {e}").into_boxed_str())),
        }
    }
    // record the exit-status accesses of one run
    let mut rec = case.clone();
    rec.env.insert("STYLUA_VERIF_SCHED_LOG".into(), "$ROOT/sched.log".into());
    let recorded = match crate::cli::run_cli(&rec) {
        Ok(r) => r,
        Err(_) => return Verdict::Skip("infrastructure: recording run failed"),
    };
    let log = recorded.after.get("sched.log").map(|f| String::from_utf8_lossy(&f.bytes).to_string()).unwrap_or_default();
    let labels: Vec<String> = log.lines().filter_map(|l| l.split(" -> ").next().map(|s| s.to_string())).collect();
    // the final read of the status by the main thread always comes last
    let main_seq: Vec<String> = labels.iter().filter(|l| l.starts_with("main:") && *l != "main:load").cloned().collect();
    let w_seq: Vec<String> = labels.iter().filter(|l| l.starts_with("w:")).cloned().collect();
    let mut explored = 0;
    let mut racy = false;
    if !main_seq.is_empty() && !w_seq.is_empty() && main_seq.len() + w_seq.len() <= 10 {
        for order in merges(&main_seq, &w_seq, 64) {
            let mut c = case.clone();
            c.env.insert("STYLUA_VERIF_SCHED".into(), order.join(","));
            c.env.insert("STYLUA_VERIF_SCHED_TIMEOUT_MS".into(), "400".into());
            let Ok(run) = crate::cli::run_cli(&c) else { continue };
            if String::from_utf8_lossy(&run.stderr).contains("VERIF-SCHED-INFEASIBLE") {
                continue;
            }
            explored += 1;
            // a main-thread store between two worker accesses is the interesting interleaving
            if order.windows(3).any(|w| w[0].starts_with("w:") && w[1].starts_with("main:") && w[2].starts_with("w:")) {
                racy = true;
            }
            if let Some(d) = judge(&run, &format!("access order [{}]", order.join(", "))) {
                return Verdict::Fail(d);
            }
        }
    }
    Verdict::Pass { nontrivial: explored >= 2 || racy }
}

pub static C19: CliProp = CliProp {
    id: "C19",
    rule: "E4: generated file sets (1-5 files: unformatted, formatted, unparseable) with 0-2 missing path arguments in permuted argument order, --check or write mode. For every set: (a) a sweep over --num-threads 1, 2, 3, 4, 8, 16; (b) the exit-status accesses of one run are recorded through the schedule hook (labels <thread>:<operation>), and every interleaving of the main thread's accesses (walker errors) with the output thread's accesses (diffs, logged errors) that keeps each thread's own order - all of them for up to 10 accesses, at most 64 - is forced through STYLUA_VERIF_SCHED; orders the program cannot realise are reported by the hook and not judged. Oracle (order independent): exit status 2 if any selected file fails or an argument is missing, else 1 if (check mode) any file differs, else 0; final file contents equal the library's output (write mode) or the input (check mode), for every thread count and every forced order. Non-trivial: at least two feasible orders were forced, or an order places a main-thread store between two output-thread accesses.",
    gen_case: gen_c19,
    oracle: c19_oracle,
    quick_cases: 600,
    thorough_cases: 10_000,
    tape_len: 100,
    assumptions: &["interleavings of the exit-status accesses are enumerated; interleavings of file I/O between workers are only reached through the thread-count sweep", "the schedule hook wraps the EXIT_CODE atomic (verif-hooks), so a rewritten access sequence is still scheduled"],
    extra: None,
    exclude: None,
};

pub fn cli_prop(id: &str) -> Option<&'static CliProp> {
    match id {
        "C13" => Some(&C13),
        "C14" => Some(&C14),
        "C15" => Some(&C15),
        "C16" => Some(&C16),
        "C17" => Some(&C17),
        "C18" => Some(&C18),
        "C19" => Some(&C19),
        "C20" => Some(&C20),
        _ => None,
    }
}
