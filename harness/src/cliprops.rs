//! Command-line properties C13 .. C18, C20: generators and models.

use crate::cli::{gen_optcfg, lib_format, messy_program, CliCase, CliRun, OptCfg};
use crate::clirun::CliProp;
use crate::lex::Syntax;
use crate::oracle::Verdict;
use crate::tape::Tape;
use std::collections::{BTreeMap, BTreeSet};
use stylua_lib as sl;

// ------------------------------------------------------------------------------------------
// argv model

#[derive(Debug, Default, Clone)]
pub struct Args {
    pub check: bool,
    pub verify: bool,
    pub output_format: String,
    pub opts: OptCfg,
    pub files: Vec<String>,
    pub globs: Option<Vec<String>>,
    pub respect_ignores: bool,
    pub allow_hidden: bool,
    pub config_path: Option<String>,
    pub search_parents: bool,
    pub no_editorconfig: bool,
    pub stdin_filepath: Option<String>,
    pub range: (Option<usize>, Option<usize>),
}

fn parse_enum<T: Copy + std::fmt::Debug>(vals: &[T], s: &str) -> Option<T> {
    vals.iter().copied().find(|v| format!("{v:?}").eq_ignore_ascii_case(s))
}

pub fn parse_args(argv: &[String]) -> Args {
    use crate::cfg::*;
    let mut a = Args { output_format: "standard".into(), ..Default::default() };
    let mut i = 0;
    let mut only_files = false;
    while i < argv.len() {
        let arg = argv[i].as_str();
        let mut val = || {
            i += 1;
            argv.get(i).cloned().unwrap_or_default()
        };
        if only_files {
            a.files.push(arg.to_string());
            i += 1;
            continue;
        }
        match arg {
            "--" => only_files = true,
            "--check" | "-c" => a.check = true,
            "--verify" => a.verify = true,
            "--output-format" => a.output_format = val().to_ascii_lowercase(),
            "--color" | "--num-threads" => {
                val();
            }
            "--range-start" => a.range.0 = val().parse().ok(),
            "--range-end" => a.range.1 = val().parse().ok(),
            "--glob" | "-g" => a.globs.get_or_insert_with(Vec::new).push(val()),
            "--respect-ignores" => a.respect_ignores = true,
            "--allow-hidden" | "-a" => a.allow_hidden = true,
            "--config-path" | "-f" => a.config_path = Some(val()),
            "--search-parent-directories" | "-s" => a.search_parents = true,
            "--no-editorconfig" => a.no_editorconfig = true,
            "--stdin-filepath" => a.stdin_filepath = Some(val()),
            "--sort-requires" => a.opts.sort_requires = Some(true),
            "--syntax" => a.opts.syntax = Syntax::from_name(&val()),
            "--column-width" => a.opts.column_width = val().parse().ok(),
            "--indent-width" => a.opts.indent_width = val().parse().ok(),
            "--line-endings" => a.opts.line_endings = parse_enum(&[Endings::Unix, Endings::Windows], &val()),
            "--indent-type" => a.opts.indent_type = parse_enum(&[Indent::Tabs, Indent::Spaces], &val()),
            "--quote-style" => a.opts.quote_style = parse_enum(&QUOTES, &val()),
            "--call-parentheses" => a.opts.call_parentheses = parse_enum(&CALLPARENS, &val()),
            "--collapse-simple-statement" => a.opts.collapse = parse_enum(&COLLAPSE, &val()),
            "--space-after-function-names" => a.opts.space_after = parse_enum(&SPACEAFTER, &val()),
            "--verbose" | "-v" => {}
            _ => a.files.push(arg.to_string()),
        }
        i += 1;
    }
    a
}

fn join_rel(cwd: &str, p: &str) -> String {
    // path of `p` (relative to cwd) relative to the sandbox root, normalised (no `.` / `..`)
    let mut parts: Vec<&str> = cwd.split('/').filter(|s| !s.is_empty()).collect();
    for seg in p.split('/') {
        match seg {
            "" | "." => {}
            ".." => {
                parts.pop();
            }
            s => parts.push(s),
        }
    }
    parts.join("/")
}

fn is_lua_name(name: &str) -> bool {
    name.ends_with(".lua") || name.ends_with(".luau")
}

/// Files selected by plain arguments in a tree without ignore files, hidden entries or globs:
/// (root-relative path -> path as printed), plus whether an argument names a missing path
pub fn simple_selection(case: &CliCase, args: &Args) -> (BTreeMap<String, String>, bool) {
    let mut sel = BTreeMap::new();
    let mut missing = false;
    for f in &args.files {
        let rel = join_rel(&case.cwd, f);
        if case.files.contains_key(&rel) {
            sel.entry(rel).or_insert_with(|| f.clone());
            continue;
        }
        let prefix = if rel.is_empty() { String::new() } else { format!("{rel}/") };
        let is_dir = rel.is_empty() || case.files.keys().any(|k| k.starts_with(&prefix)) || case.dirs.iter().any(|d| d == &rel || d.starts_with(&prefix));
        if !is_dir {
            missing = true;
            continue;
        }
        for k in case.files.keys() {
            if k.starts_with(&prefix) {
                let inner = &k[prefix.len()..];
                if inner.split('/').any(|seg| seg.starts_with('.')) {
                    continue;
                }
                if is_lua_name(k) {
                    let printed = if f == "." { format!("./{inner}") } else { format!("{}/{inner}", f.trim_end_matches('/')) };
                    sel.entry(k.clone()).or_insert(printed);
                }
            }
        }
    }
    (sel, missing)
}

#[derive(Debug, Clone, PartialEq, Eq)]
pub enum FileClass {
    /// cannot be read as UTF-8 or does not parse
    Error,
    Formatted,
    /// formatted text differs from the content
    Differs(String),
}

pub fn classify_file(bytes: &[u8], config: sl::Config) -> FileClass {
    match std::str::from_utf8(bytes) {
        Err(_) => FileClass::Error,
        Ok(s) => match lib_format(s, config) {
            None => FileClass::Error,
            Some(q) if q == s => FileClass::Formatted,
            Some(q) => FileClass::Differs(q),
        },
    }
}

fn faults(case: &CliCase) -> BTreeMap<String, String> {
    let mut m = BTreeMap::new();
    if let Some(spec) = case.env.get("STYLUA_VERIF_FAULT") {
        for e in spec.split(',') {
            if let Some((f, k)) = e.split_once('=') {
                m.insert(f.to_string(), k.to_string());
            }
        }
    }
    m
}

fn basename(p: &str) -> &str {
    p.rsplit('/').next().unwrap_or(p)
}

// ------------------------------------------------------------------------------------------
// tree generator shared by C13 / C14 / C18

const DIRS: [&str; 4] = ["", "sub/", "sub/deep/", "other/"];

struct TreeSpec {
    case: CliCase,
    names: Vec<String>,
}

fn gen_tree(t: &mut Tape, labels: &mut Vec<&'static str>, with_errors: bool) -> TreeSpec {
    let mut case = CliCase::default();
    // stop every configuration search at the sandbox root
    case.files.insert(".editorconfig".into(), b"root = true\n".to_vec());
    let opts = if t.chance(100) { gen_optcfg(t, false) } else { OptCfg::default() };
    let config = opts.apply(sl::Config::default());
    let n = 1 + t.pick(6);
    let mut names = Vec::new();
    for i in 0..n {
        let dir = DIRS[t.pick(DIRS.len())];
        let ext = match t.pick(8) {
            0 => ".luau",
            1 => ".txt",
            _ => ".lua",
        };
        let name = format!("{dir}f{i}{ext}");
        let class = t.pick(if with_errors { 10 } else { 7 });
        // classes 5, 6 (and 7 below) only exist with errors: remap so that 0..=6 are the valid-file classes
        let class = if with_errors { class } else { [0, 1, 2, 3, 4, 8, 9][class] };
        let messy = messy_program(i + 10 * t.pick(4));
        let content: Vec<u8> = match class {
            0 | 1 => lib_format(&messy, config).unwrap_or(messy).into_bytes(),
            2 | 3 | 4 => messy.into_bytes(),
            5 => {
                labels.push("file:unparseable");
                format!("local x{i} = = 1\n").into_bytes()
            }
            6 => {
                labels.push("file:invalid-utf8");
                let mut v = format!("local s{i} = \"").into_bytes();
                v.extend_from_slice(&[0xff, 0xfe, 0x80]);
                v.extend_from_slice(b"\"\n");
                v
            }
            7 => {
                labels.push("file:crlf-unformatted");
                messy.replace('\n', "\r\n").into_bytes()
            }
            8 => {
                // formatted, but with the other line ending convention: differs in line terminators only
                labels.push("file:formatted-other-line-endings");
                let f = lib_format(&messy, config).unwrap_or(messy);
                if f.contains("\r\n") {
                    f.replace("\r\n", "\n").into_bytes()
                } else {
                    f.replace('\n', "\r\n").into_bytes()
                }
            }
            _ => {
                // formatted, but without the final line ending
                labels.push("file:formatted-no-final-newline");
                let f = lib_format(&messy, config).unwrap_or(messy);
                f.trim_end_matches(|c| c == '\n' || c == '\r').to_string().into_bytes()
            }
        };
        if class <= 1 {
            labels.push("file:formatted");
        } else if class <= 4 {
            labels.push("file:unformatted");
        }
        case.files.insert(name.clone(), content);
        names.push(name);
    }
    case.argv = opts.to_flags();
    TreeSpec { case, names }
}

fn gen_file_args(t: &mut Tape, spec: &TreeSpec, labels: &mut Vec<&'static str>) -> Vec<String> {
    let mut args: Vec<String> = Vec::new();
    match t.pick(6) {
        0 | 1 => {
            args.push(".".into());
            labels.push("args:dot");
        }
        2 => {
            // directories
            let mut dirs: BTreeSet<String> = BTreeSet::new();
            for n in &spec.names {
                if let Some((d, _)) = n.rsplit_once('/') {
                    dirs.insert(d.split('/').next().unwrap().to_string());
                }
            }
            for d in dirs {
                if t.chance(180) {
                    args.push(d);
                }
            }
            // top-level files explicitly
            for n in &spec.names {
                if !n.contains('/') && t.chance(160) {
                    args.push(n.clone());
                }
            }
            labels.push("args:dirs-and-files");
        }
        _ => {
            for n in &spec.names {
                if t.chance(170) {
                    args.push(n.clone());
                }
            }
            // a directory together with a file below it (same spelling)
            if t.chance(60) {
                if let Some(n) = spec.names.iter().find(|n| n.starts_with("sub/")) {
                    args.push("sub".into());
                    args.push(n.clone());
                    labels.push("args:overlap");
                }
            }
            labels.push("args:explicit-files");
        }
    }
    if t.chance(40) {
        args.push("missing_dir/nothing.lua".into());
        labels.push("args:missing-path");
    }
    if args.is_empty() {
        args.push(spec.names[0].clone());
    }
    // repeats
    if t.chance(30) {
        let a = args[0].clone();
        args.push(a);
        labels.push("args:repeat");
    }
    args
}

// ------------------------------------------------------------------------------------------
// C13

fn gen_c13(t: &mut Tape, labels: &mut Vec<&'static str>) -> Option<CliCase> {
    let mut spec = gen_tree(t, labels, true);
    let fmt = ["Standard", "Unified", "Json", "Summary", "standard", "JSON"][t.pick(6)];
    let mut argv = vec!["--check".to_string()];
    if fmt != "Standard" || t.chance(60) {
        argv.push("--output-format".into());
        argv.push(fmt.into());
    }
    labels.push(match fmt.to_ascii_lowercase().as_str() {
        "standard" => "format:standard",
        "unified" => "format:unified",
        "json" => "format:json",
        _ => "format:summary",
    });
    if t.chance(50) {
        argv.push("--verify".into());
        labels.push("verify");
    }
    if t.chance(128) {
        argv.push("--num-threads".into());
        argv.push((1 + t.pick(16)).to_string());
    }
    if t.chance(80) {
        argv.push("--color".into());
        argv.push(["Never", "Always", "auto"][t.pick(3)].into());
    }
    if t.chance(60) {
        argv.push("--no-editorconfig".into());
    }
    if t.chance(50) {
        argv.push(if t.chance(128) { "--verbose" } else { "-v" }.into());
        labels.push("verbose");
    }
    argv.extend(spec.case.argv.clone());
    argv.extend(gen_file_args(t, &spec, labels));
    spec.case.argv = argv;
    Some(spec.case)
}

fn diff_files_reported(format: &str, stdout: &str) -> (BTreeSet<String>, usize) {
    // (file names reported, number of diffs reported) -- unified diffs carry no file name
    let mut names = BTreeSet::new();
    let mut count = 0;
    match format {
        "standard" => {
            for l in stdout.lines() {
                let l = strip_ansi(l);
                if let Some(rest) = l.strip_prefix("Diff in ") {
                    if let Some(name) = rest.strip_suffix(':') {
                        names.insert(name.to_string());
                        count += 1;
                    }
                }
            }
        }
        "unified" => {
            count = stdout.lines().filter(|l| *l == "--- old").count();
        }
        "json" => {
            for l in stdout.lines() {
                if let Ok(v) = serde_json::from_str::<serde_json::Value>(l) {
                    if let Some(f) = v.get("file").and_then(|f| f.as_str()) {
                        names.insert(f.to_string());
                        count += 1;
                    }
                }
            }
        }
        _ => {
            for l in stdout.lines() {
                let plain: String = strip_ansi(l);
                if plain.starts_with('!') || plain.starts_with('✓') || plain.starts_with('✕') || plain.is_empty() {
                    continue;
                }
                names.insert(plain);
                count += 1;
            }
        }
    }
    (names, count)
}

fn strip_ansi(s: &str) -> String {
    let mut out = String::new();
    let mut chars = s.chars().peekable();
    while let Some(c) = chars.next() {
        if c == '\u{1b}' {
            // CSI sequence
            if chars.peek() == Some(&'[') {
                chars.next();
                for d in chars.by_ref() {
                    if d.is_ascii_alphabetic() {
                        break;
                    }
                }
            }
        } else {
            out.push(c);
        }
    }
    out
}

fn tree_unchanged(run: &CliRun) -> Option<String> {
    if run.before == run.after {
        return None;
    }
    for (k, v) in &run.before {
        match run.after.get(k) {
            None => return Some(format!("`{k}` was removed")),
            Some(w) if w.bytes != v.bytes => return Some(format!("`{k}` was modified")),
            Some(w) if w.mtime_ns != v.mtime_ns || w.ino != v.ino => return Some(format!("`{k}` was touched (mtime / inode changed)")),
            _ => {}
        }
    }
    for k in run.after.keys() {
        if !run.before.contains_key(k) {
            return Some(format!("`{k}` was created"));
        }
    }
    Some("tree changed".into())
}

fn c13_oracle(case: &CliCase, run: &CliRun) -> Verdict {
    let args = parse_args(&case.argv);
    let config = args.opts.apply(sl::Config::default());
    let (sel, missing) = simple_selection(case, &args);
    if let Some(d) = tree_unchanged(run) {
        return Verdict::Fail(format!("--check changed the file system: {d}"));
    }
    let mut any_error = missing;
    let mut differing: BTreeSet<String> = BTreeSet::new();
    let mut classes = BTreeSet::new();
    for (rel, printed) in &sel {
        match classify_file(&case.files[rel], config) {
            FileClass::Error => {
                any_error = true;
                classes.insert("error");
            }
            FileClass::Formatted => {
                classes.insert("formatted");
            }
            FileClass::Differs(_) => {
                differing.insert(printed.clone());
                classes.insert("differs");
            }
        }
    }
    let want = if any_error {
        2
    } else if !differing.is_empty() {
        1
    } else {
        0
    };
    if run.code != Some(want) {
        return Verdict::Fail(format!(
            "exit status {:?}, expected {} ({} selected, {} differ, error among them or missing argument: {}); stderr: {}",
            run.code,
            want,
            sel.len(),
            differing.len(),
            any_error,
            String::from_utf8_lossy(&run.stderr).lines().next().unwrap_or("")
        ));
    }
    let stdout = String::from_utf8_lossy(&run.stdout).to_string();
    let (names, count) = diff_files_reported(&args.output_format, &stdout);
    if args.output_format == "unified" {
        if count != differing.len() {
            return Verdict::Fail(format!("{} unified diffs printed for {} differing files", count, differing.len()));
        }
    } else {
        if names != differing || count != differing.len() {
            return Verdict::Fail(format!("diffs printed for {:?} ({} entries) but the differing files are {:?}", names, count, differing));
        }
    }
    Verdict::Pass { nontrivial: classes.len() >= 2 }
}

pub static C13: CliProp = CliProp {
    id: "C13",
    rule: "E3: generated trees of 1-6 files in up to 3 directory levels (formatted, unformatted, CRLF, unparseable, invalid UTF-8 = unreadable as text, .lua / .luau / .txt), arguments `.`, directories, explicit files, overlapping and repeated arguments, a missing path; --check with all four output formats (case variants), --verify, --num-threads 1-16, colour modes, random format flags. Model (README): selected = explicit files plus *.lua / *.luau below directory arguments; exit 2 if any selected file cannot be read or parsed or an argument is missing, else 1 if any selected file differs from the library's output under the flags, else 0; the set (unified: the number) of diffs printed equals the set of differing files; the tree snapshot (bytes, mtime ns, inode, listing) is unchanged. Non-trivial: at least two outcome classes among the selected files.",
    gen_case: gen_c13,
    oracle: c13_oracle,
    quick_cases: 16_000,
    thorough_cases: 300_000,
    tape_len: 200,
    assumptions: &["'unreadable' is simulated by invalid UTF-8 (the sandbox runs as root, file modes are not enforced)", "arguments never spell the same file in two different ways (known finding KF-C16-path-spelling)"],
    extra: None,
};

// ------------------------------------------------------------------------------------------
// C14

fn gen_c14(t: &mut Tape, labels: &mut Vec<&'static str>) -> Option<CliCase> {
    let mut spec = gen_tree(t, labels, true);
    let mut argv: Vec<String> = Vec::new();
    if t.chance(60) {
        argv.push("--num-threads".into());
        argv.push((1 + t.pick(16)).to_string());
    }
    if t.chance(40) {
        argv.push("--verify".into());
        labels.push("verify");
    }
    argv.extend(spec.case.argv.clone());
    argv.extend(gen_file_args(t, &spec, labels));
    // injected faults
    let mut f = Vec::new();
    for n in &spec.names {
        if t.chance(40) {
            let kind = ["panic", "verify", "write"][t.pick(3)];
            f.push(format!("{}={}", basename(n), kind));
            labels.push(match kind {
                "panic" => "fault:formatter-crash",
                "verify" => "fault:verification-failure",
                _ => "fault:write-error",
            });
        }
    }
    if !f.is_empty() {
        spec.case.env.insert("STYLUA_VERIF_FAULT".into(), f.join(","));
    }
    spec.case.argv = argv;
    Some(spec.case)
}

fn c14_oracle(case: &CliCase, run: &CliRun) -> Verdict {
    let args = parse_args(&case.argv);
    let config = args.opts.apply(sl::Config::default());
    let (sel, missing) = simple_selection(case, &args);
    let faults = faults(case);
    let mut any_failure = missing;
    let mut kinds = BTreeSet::new();
    for (rel, before) in &run.before {
        if rel.ends_with('/') {
            continue;
        }
        let Some(after) = run.after.get(rel) else { return Verdict::Fail(format!("`{rel}` disappeared")) };
        let untouched = after.mtime_ns == before.mtime_ns && after.ino == before.ino && after.bytes == before.bytes;
        if !sel.contains_key(rel) {
            if !untouched {
                return Verdict::Fail(format!("`{rel}` was not selected but was changed"));
            }
            continue;
        }
        let fault = faults.get(basename(rel)).map(|s| s.as_str());
        let class = classify_file(&before.bytes, config);
        match (&class, fault) {
            // formatting never starts for a file that cannot be read; injected failures at the format point
            (FileClass::Error, _) | (_, Some("panic")) | (_, Some("verify")) => {
                // unreadable files fail before the fault point
                if matches!(class, FileClass::Error) || fault.is_some() {
                    // invalid UTF-8 fails at read time whatever the fault; unparseable fails in format_code unless a fault fires first
                    any_failure = true;
                    kinds.insert("failing");
                    if !untouched {
                        return Verdict::Fail(format!("`{rel}` failed to format but was changed"));
                    }
                }
            }
            (FileClass::Differs(_), Some("write")) => {
                any_failure = true;
                kinds.insert("failing");
                if !untouched {
                    return Verdict::Fail(format!("`{rel}` could not be written but was changed"));
                }
            }
            (FileClass::Formatted, _) => {
                kinds.insert("formatted");
                if !untouched {
                    return Verdict::Fail(format!("`{rel}` is already formatted but was rewritten"));
                }
            }
            (FileClass::Differs(q), _) => {
                kinds.insert("rewritten");
                if after.bytes != q.as_bytes() {
                    let got = String::from_utf8_lossy(&after.bytes);
                    return Verdict::Fail(if after.bytes == before.bytes {
                        format!("`{rel}` should have been formatted but was left unchanged")
                    } else {
                        format!("`{rel}` was not replaced by its complete formatted text (got {} bytes, expected {}): {:?}", after.bytes.len(), q.len(), got.chars().take(60).collect::<String>())
                    });
                }
            }
        }
    }
    for k in run.after.keys() {
        if !run.before.contains_key(k) {
            return Verdict::Fail(format!("stray file `{k}` was created"));
        }
    }
    let want = if any_failure { 2 } else { 0 };
    if run.code != Some(want) {
        return Verdict::Fail(format!("exit status {:?}, expected {want}; stderr: {}", run.code, String::from_utf8_lossy(&run.stderr).lines().next().unwrap_or("")));
    }
    Verdict::Pass { nontrivial: kinds.len() >= 2 }
}

pub static C14: CliProp = CliProp {
    id: "C14",
    rule: "E3, write mode: trees as in C13; failure classes unparseable, invalid UTF-8, and - through the fault hook, independent of which formatter defects exist - formatter crash, verification failure and write error on chosen files; arguments in any order, directories, repeats, --num-threads 1-16. Model: a failing file keeps bytes, mtime and inode; every other selected file that differs from the library's output is replaced by exactly that output; an already formatted file keeps mtime and inode; unselected files are untouched; no file is created; exit 2 iff any failure (or a missing argument), else 0. Non-trivial: at least two of {failing, rewritten, already formatted} among the selected files.",
    gen_case: gen_c14,
    oracle: c14_oracle,
    quick_cases: 16_000,
    thorough_cases: 300_000,
    tape_len: 200,
    assumptions: &["formatter crash / verification failure / write error are injected with the verif-hooks fault points (STYLUA_VERIF_FAULT)", "'unreadable' is simulated by invalid UTF-8"],
    extra: None,
};

pub fn cli_prop(id: &str) -> Option<&'static CliProp> {
    match id {
        "C13" => Some(&C13),
        "C14" => Some(&C14),
        _ => None,
    }
}
