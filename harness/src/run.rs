//! Shared run-time machinery: tiers, seeds, statistics, evidence files, known findings,
//! replay files, violation reporting.

use crate::corpus::verif_root;
use serde_json::{json, Value};
use std::collections::{BTreeMap, BTreeSet, HashSet};
use std::path::PathBuf;
use std::time::Instant;

#[derive(Clone, Copy, Debug, PartialEq, Eq)]
pub enum Tier {
    Quick,
    Thorough,
}

impl Tier {
    pub fn name(self) -> &'static str {
        match self {
            Tier::Quick => "quick",
            Tier::Thorough => "thorough",
        }
    }
    pub fn from_args(arg: Option<&str>) -> Tier {
        let s = arg.map(|s| s.to_string()).or_else(|| std::env::var("VERIF_TIER").ok()).unwrap_or_default();
        if s.eq_ignore_ascii_case("thorough") {
            Tier::Thorough
        } else {
            Tier::Quick
        }
    }
}

pub fn seed() -> u64 {
    std::env::var("VERIF_SEED").ok().and_then(|s| s.trim().parse::<i64>().ok()).map(|v| v as u64).unwrap_or(0)
}

/// Deterministic 32-byte proptest seed from (global seed, salt, worker)
pub fn rng_seed(seed: u64, salt: &str, worker: usize) -> [u8; 32] {
    let mut out = [0u8; 32];
    let mut h: u64 = 0xcbf29ce484222325 ^ seed.wrapping_mul(0x9E3779B97F4A7C15);
    for b in salt.bytes() {
        h = (h ^ b as u64).wrapping_mul(0x100000001b3);
    }
    h = (h ^ worker as u64).wrapping_mul(0x100000001b3);
    for i in 0..4 {
        // splitmix64
        h = h.wrapping_add(0x9E3779B97F4A7C15);
        let mut z = h;
        z = (z ^ (z >> 30)).wrapping_mul(0xBF58476D1CE4E5B9);
        z = (z ^ (z >> 27)).wrapping_mul(0x94D049BB133111EB);
        z ^= z >> 31;
        out[i * 8..i * 8 + 8].copy_from_slice(&z.to_le_bytes());
    }
    out
}

/// A proptest runner with a fixed seed, no persistence, `cases` cases
pub fn runner(seed: u64, salt: &str, worker: usize, cases: u32) -> proptest::test_runner::TestRunner {
    use proptest::test_runner::{Config, RngAlgorithm, TestRng, TestRunner};
    let config = Config {
        cases,
        failure_persistence: None,
        max_shrink_iters: 4000,
        max_global_rejects: u32::MAX,
        max_local_rejects: u32::MAX,
        ..Config::default()
    };
    let rng = TestRng::from_seed(RngAlgorithm::ChaCha, &rng_seed(seed, salt, worker));
    TestRunner::new_with_rng(config, rng)
}

// ---------------------------------------------------------------------------------------------
// statistics

#[derive(Default, Debug)]
pub struct Stats {
    pub evaluations: u64,
    pub nontrivial: HashSet<u64>,
    pub tiers: BTreeMap<String, u64>,
    pub skips: BTreeMap<String, u64>,
    pub labels: BTreeMap<String, u64>,
    pub excluded: BTreeMap<String, u64>,
    pub exploratory: BTreeMap<String, u64>,
    pub samples: Vec<Value>,
    pub notes: Vec<String>,
    /// set by a tier that enumerated its whole (finite) space in this run
    pub exhaustive: bool,
}

impl Stats {
    pub fn merge(&mut self, other: Stats) {
        self.evaluations += other.evaluations;
        self.nontrivial.extend(other.nontrivial);
        for (k, v) in other.tiers {
            *self.tiers.entry(k).or_default() += v;
        }
        for (k, v) in other.skips {
            *self.skips.entry(k).or_default() += v;
        }
        for (k, v) in other.labels {
            *self.labels.entry(k).or_default() += v;
        }
        for (k, v) in other.excluded {
            *self.excluded.entry(k).or_default() += v;
        }
        for (k, v) in other.exploratory {
            *self.exploratory.entry(k).or_default() += v;
        }
        for s in other.samples {
            if self.samples.len() < 8 {
                self.samples.push(s);
            }
        }
        self.notes.extend(other.notes);
        self.exhaustive = self.exhaustive || other.exhaustive;
    }
    pub fn count(&mut self, tier: &str) {
        self.evaluations += 1;
        *self.tiers.entry(tier.to_string()).or_default() += 1;
    }
    pub fn skip(&mut self, why: &str) {
        *self.skips.entry(why.to_string()).or_default() += 1;
    }
    pub fn label(&mut self, l: &str) {
        *self.labels.entry(l.to_string()).or_default() += 1;
    }
    pub fn sample(&mut self, limit: usize, v: impl FnOnce() -> Value) {
        if self.samples.len() < limit {
            self.samples.push(v());
        }
    }
}

pub struct Evidence {
    pub property: String,
    pub tier: Tier,
    pub seed: u64,
    pub rule: String,
    pub assumptions: Vec<String>,
    pub exhaustive: bool,
    pub started: Instant,
}

impl Evidence {
    pub fn new(property: &str, tier: Tier, rule: &str) -> Evidence {
        Evidence { property: property.to_string(), tier, seed: seed(), rule: rule.to_string(), assumptions: Vec::new(), exhaustive: false, started: Instant::now() }
    }
    pub fn write(&self, stats: &Stats, violations: usize, known: &[String]) {
        let dir = verif_root().join("evidence");
        let _ = std::fs::create_dir_all(&dir);
        let mut samples = stats.samples.clone();
        if samples.is_empty() {
            samples.push(json!("no case was generated"));
        }
        let v = json!({
            "property_id": self.property,
            "tier": self.tier.name(),
            "seed": self.seed as i64,
            "level": "exploration",
            "coverage": {
                "evaluations": stats.evaluations,
                "distinct_nontrivial": stats.nontrivial.len(),
                "rule": self.rule,
                "samples": samples,
                "exhaustive": self.exhaustive || stats.exhaustive,
                "per_tier": stats.tiers,
                "skipped_outside_quantifier": stats.skips,
                "labels": stats.labels,
                "excluded_by_known_finding": stats.excluded,
                "exploratory_no_verdict": stats.exploratory,
                "known_findings_reproduced": known,
                "notes": stats.notes,
            },
            "assumptions": self.assumptions,
            "wall_s": (self.started.elapsed().as_secs_f64() * 100.0).round() / 100.0,
            "violations": violations,
        });
        let path = dir.join(format!("{}.json", self.property));
        let tmp = dir.join(format!(".{}.json.tmp", self.property));
        std::fs::write(&tmp, serde_json::to_string_pretty(&v).unwrap()).expect("write evidence");
        std::fs::rename(&tmp, &path).expect("rename evidence");
    }
}

// ---------------------------------------------------------------------------------------------
// known findings

#[derive(Clone, Debug)]
pub struct Finding {
    pub property: String,
    pub id: String,
    pub what: String,
    /// replay files (relative to /verif)
    pub replays: Vec<String>,
    /// corpus pairs `file|cfglabel`
    pub pairs: BTreeSet<String>,
}

/// Parses /verif/KNOWN_FINDINGS.txt (never written at run time).
/// `known: property=C03 id=KF-x [replay=a.json,b.json] [pairs=domain/file.txt] :: description`
pub fn load_findings(property: &str) -> Vec<Finding> {
    let root = verif_root();
    let text = std::fs::read_to_string(root.join("KNOWN_FINDINGS.txt")).unwrap_or_default();
    let mut out = Vec::new();
    for line in text.lines() {
        let line = line.trim();
        let Some(rest) = line.strip_prefix("known:") else { continue };
        let (head, what) = rest.split_once("::").unwrap_or((rest, ""));
        let mut f = Finding { property: String::new(), id: String::new(), what: what.trim().to_string(), replays: Vec::new(), pairs: BTreeSet::new() };
        for kv in head.split_whitespace() {
            if let Some((k, v)) = kv.split_once('=') {
                match k {
                    "property" => f.property = v.to_string(),
                    "id" => f.id = v.to_string(),
                    "replay" => f.replays = v.split(',').map(|s| s.to_string()).collect(),
                    "pairs" => {
                        let t = std::fs::read_to_string(root.join(v)).unwrap_or_default();
                        for l in t.lines() {
                            let l = l.trim();
                            if !l.is_empty() && !l.starts_with('#') {
                                f.pairs.insert(l.to_string());
                            }
                        }
                    }
                    _ => {}
                }
            }
        }
        if f.property == property {
            out.push(f);
        }
    }
    out
}

/// Regression inputs of repaired defects: /verif/regress/*.json, each
/// `{"properties": ["C06", ...], "fixed_by": "<commit>", "note": "...", "cases": [...]}`.
/// Returns (file name, case value) for the files that name `property`. They are ordinary members of the verdict
/// domain (no exclusion applies to them): a failure is a violation.
pub fn load_regressions(property: &str) -> Vec<(String, Value)> {
    let dir = verif_root().join("regress");
    let mut names: Vec<PathBuf> = std::fs::read_dir(&dir).map(|d| d.filter_map(|e| e.ok().map(|e| e.path())).collect()).unwrap_or_default();
    names.sort();
    let mut out = Vec::new();
    for path in names {
        if path.extension().map_or(true, |e| e != "json") {
            continue;
        }
        let Ok(text) = std::fs::read_to_string(&path) else { continue };
        let Ok(v) = serde_json::from_str::<Value>(&text) else { continue };
        let named = v.get("properties").and_then(|p| p.as_array()).map_or(false, |a| a.iter().any(|x| x.as_str() == Some(property)));
        if !named {
            continue;
        }
        let name = path.file_name().map(|n| n.to_string_lossy().to_string()).unwrap_or_default();
        for c in v.get("cases").and_then(|c| c.as_array()).cloned().unwrap_or_default() {
            out.push((name.clone(), c));
        }
    }
    out
}

// ---------------------------------------------------------------------------------------------
// violations

pub struct Reporter {
    pub property: String,
    pub violations: usize,
    pub known_lines: Vec<String>,
}

impl Reporter {
    pub fn new(property: &str) -> Reporter {
        Reporter { property: property.to_string(), violations: 0, known_lines: Vec::new() }
    }
    pub fn out_dir() -> PathBuf {
        let d = verif_root().join("out").join("violations");
        let _ = std::fs::create_dir_all(&d);
        d
    }
    /// writes the replay file and prints the VIOLATION line
    pub fn violation(&mut self, replay: Value, tag: &str) -> PathBuf {
        use std::hash::{Hash, Hasher};
        let mut h = std::collections::hash_map::DefaultHasher::new();
        replay.to_string().hash(&mut h);
        let path = Self::out_dir().join(format!("{}-{}-{:016x}.json", self.property, tag, h.finish()));
        std::fs::write(&path, serde_json::to_string_pretty(&replay).unwrap()).expect("write replay");
        self.violations += 1;
        if self.violations <= 20 {
            println!("VIOLATION property={} replay={}", self.property, path.display());
            if let Some(d) = replay.get("detail").and_then(|d| d.as_str()) {
                println!("  detail: {}", d.lines().next().unwrap_or(""));
            }
        }
        path
    }
    pub fn known(&mut self, id: &str, what: &str) {
        let line = format!("KNOWN-FINDING: property={} {} {}", self.property, id, what);
        if !self.known_lines.contains(&line) {
            println!("{line}");
            self.known_lines.push(line);
        }
    }
    pub fn exit_code(&self) -> i32 {
        if self.violations > 0 {
            1
        } else {
            0
        }
    }
}
