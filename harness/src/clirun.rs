//! Driver for the command-line properties (engine E3): proptest-generated (tree, argv, env, stdin)
//! cases, executed with the real binary, judged by a model that is a pure function of the case.

use crate::cli::{run_cli, CliCase, CliRun};
use crate::engine::{num_workers, par_workers};
use crate::oracle::Verdict;
use crate::run::{load_findings, runner, Evidence, Reporter, Stats, Tier};
use crate::tape::Tape;
use proptest::prelude::*;
use proptest::test_runner::TestError;
use serde_json::{json, Value};
use std::cell::RefCell;

pub struct CliProp {
    pub id: &'static str,
    pub rule: &'static str,
    pub gen_case: fn(&mut Tape, &mut Vec<&'static str>) -> Option<CliCase>,
    pub oracle: fn(&CliCase, &CliRun) -> Verdict,
    pub quick_cases: u32,
    pub thorough_cases: u32,
    pub tape_len: usize,
    pub assumptions: &'static [&'static str],
    /// deterministic extra tier (enumerations)
    pub extra: Option<fn(&mut Reporter, &mut Stats, Tier)>,
    /// inputs excluded from the verdict domain because they match a known finding (returns its id);
    /// never applied when a replay file is run
    pub exclude: Option<fn(&CliCase) -> Option<&'static str>>,
}

pub fn replay_value(prop: &str, case: &CliCase, detail: &str, origin: &str, run: Option<&CliRun>) -> Value {
    let mut v = json!({
        "property": prop,
        "engine": "cli",
        "origin": origin,
        "cli_case": case.to_json(),
        "detail": detail,
    });
    if let Some(r) = run {
        v["observed"] = json!({
            "exit": r.code,
            "stdout": String::from_utf8_lossy(&r.stdout).chars().take(2000).collect::<String>(),
            "stderr": String::from_utf8_lossy(&r.stderr).chars().take(2000).collect::<String>(),
        });
    }
    v
}

pub fn sample_value(case: &CliCase, run: &CliRun, origin: &str) -> Value {
    let files: Vec<String> = case.files.keys().cloned().collect();
    json!({
        "origin": origin,
        "files": files,
        "cwd": case.cwd,
        "argv": case.argv,
        "env": case.env,
        "stdin_bytes": case.stdin.as_ref().map(|s| s.len()),
        "exit": run.code,
        "stdout_head": String::from_utf8_lossy(&run.stdout).chars().take(200).collect::<String>(),
    })
}

/// judges one case: Err = infrastructure problem
pub fn judge(prop: &CliProp, case: &CliCase) -> Result<(Verdict, CliRun), String> {
    let run = run_cli(case)?;
    if run.timed_out {
        return Err("the stylua process did not finish within 60 s".to_string());
    }
    let v = crate::engine::guarded(|| (prop.oracle)(case, &run)).map_err(|p| format!("HARNESS-PANIC in oracle: {p}"))?;
    Ok((v, run))
}

pub fn run(prop: &CliProp, tier: Tier) -> i32 {
    let seed = crate::run::seed();
    let mut ev = Evidence::new(prop.id, tier, prop.rule);
    ev.assumptions = prop.assumptions.iter().map(|s| s.to_string()).collect();
    ev.assumptions.push("the library call stylua_lib::format_code (same tree) defines the expected text for a given configuration; the command line tool is judged on configuration resolution, file selection, I/O, exit status and output".into());
    let mut rep = Reporter::new(prop.id);
    let mut stats = Stats::default();
    let findings = load_findings(prop.id);
    let mut infra: Vec<String> = Vec::new();

    // known findings: replay files hold CLI cases
    for f in &findings {
        let mut still = 0;
        let mut total = 0;
        for r in &f.replays {
            let path = crate::corpus::verif_root().join(r);
            let Ok(text) = std::fs::read_to_string(&path) else { continue };
            let Ok(v) = serde_json::from_str::<Value>(&text) else { continue };
            let cases: Vec<Value> = if let Some(a) = v.get("cases").and_then(|c| c.as_array()) { a.clone() } else { vec![v["cli_case"].clone()] };
            for c in cases {
                let Some(case) = CliCase::from_json(&c) else { continue };
                total += 1;
                stats.count("known-finding-replay");
                match judge(prop, &case) {
                    Ok((v, _)) => {
                        if v.is_fail() {
                            still += 1;
                        }
                    }
                    Err(e) => infra.push(e),
                }
            }
        }
        if still > 0 {
            rep.known(&f.id, &format!("{} ({} of {} replay inputs still fail)", f.what, still, total));
        }
    }

    // R0: saved inputs of repaired defects
    for (name, c) in crate::run::load_regressions(prop.id) {
        let Some(case) = CliCase::from_json(&c) else {
            stats.notes.push(format!("regression file {name}: unreadable case"));
            continue;
        };
        match judge(prop, &case) {
            Ok((Verdict::Fail(d), run)) => {
                stats.count("R0-regression");
                rep.violation(replay_value(prop.id, &case, &d, &format!("R0:{name}"), Some(&run)), "R0");
            }
            Ok((Verdict::Pass { nontrivial }, _)) => {
                stats.count("R0-regression");
                if nontrivial {
                    stats.nontrivial.insert(case.hash64());
                }
            }
            Ok((Verdict::Skip(w), _)) => stats.skip(w),
            Err(e) => infra.push(e),
        }
    }

    if let Some(extra) = prop.extra {
        extra(&mut rep, &mut stats, tier);
    }

    let cases = match tier {
        Tier::Quick => prop.quick_cases,
        Tier::Thorough => prop.thorough_cases,
    };
    if cases > 0 {
        let workers = num_workers();
        let per = (cases as usize + workers - 1) / workers;
        let results = par_workers(workers, |w| {
            let st = RefCell::new(Stats::default());
            let failed = RefCell::new(false);
            let infra = RefCell::new(Vec::<String>::new());
            let mut r = runner(seed, prop.id, w, per as u32);
            let strat = proptest::collection::vec(any::<u8>(), 0..prop.tape_len);
            let res = r.run(&strat, |tape| {
                let mut t = Tape::new(&tape);
                let mut labels = Vec::new();
                let generated = match crate::engine::guarded(|| (prop.gen_case)(&mut t, &mut labels)) {
                    Ok(g) => g,
                    Err(p) => {
                        infra.borrow_mut().push(format!("HARNESS-PANIC in generator: {p}"));
                        return Ok(());
                    }
                };
                let Some(case) = generated else {
                    if !*failed.borrow() {
                        st.borrow_mut().skip("generator discarded");
                    }
                    return Ok(());
                };
                if let Some(kf) = prop.exclude.and_then(|e| e(&case)) {
                    if !*failed.borrow() {
                        *st.borrow_mut().excluded.entry(kf.to_string()).or_default() += 1;
                    }
                    return Ok(());
                }
                let (v, run) = match judge(prop, &case) {
                    Ok(x) => x,
                    Err(e) => {
                        if infra.borrow().len() < 5 {
                            infra.borrow_mut().push(e);
                        }
                        return Ok(());
                    }
                };
                let counting = !*failed.borrow();
                match v {
                    Verdict::Pass { nontrivial } => {
                        if counting {
                            let mut s = st.borrow_mut();
                            s.count("E3-generated");
                            if nontrivial {
                                s.nontrivial.insert(case.hash64());
                            }
                            labels.sort();
                            labels.dedup();
                            for l in labels {
                                s.label(l);
                            }
                            if nontrivial && s.samples.is_empty() {
                                s.samples.push(sample_value(&case, &run, &format!("E3:worker{w}")));
                            }
                        }
                        Ok(())
                    }
                    Verdict::Skip(why) => {
                        if counting {
                            st.borrow_mut().skip(why);
                        }
                        Ok(())
                    }
                    Verdict::Fail(d) => {
                        *failed.borrow_mut() = true;
                        Err(TestCaseError::fail(d))
                    }
                }
            });
            let failure = match res {
                Ok(()) => None,
                Err(TestError::Fail(reason, tape)) => {
                    let mut t = Tape::new(&tape);
                    let mut labels = Vec::new();
                    (prop.gen_case)(&mut t, &mut labels).map(|case| (case, reason.to_string(), tape))
                }
                Err(TestError::Abort(reason)) => {
                    infra.borrow_mut().push(format!("worker {w} aborted: {reason}"));
                    None
                }
            };
            (st.into_inner(), failure, infra.into_inner())
        });
        for (s, failure, inf) in results {
            stats.merge(s);
            infra.extend(inf);
            if let Some((case, reason, tape)) = failure {
                let run = run_cli(&case).ok();
                let mut v = replay_value(prop.id, &case, &reason, "E3:generated", run.as_ref());
                v["tape"] = json!(tape);
                rep.violation(v, "E3");
            }
        }
    }

    for n in infra.iter().take(5) {
        eprintln!("infrastructure: {n}");
        stats.notes.push(format!("infrastructure: {n}"));
    }
    ev.write(&stats, rep.violations, &rep.known_lines);
    crate::cli::cleanup_sandboxes();
    eprintln!("[{}] {} evaluations, {} distinct non-trivial, {} violations, {:.1}s", prop.id, stats.evaluations, stats.nontrivial.len(), rep.violations, ev.started.elapsed().as_secs_f64());
    if !infra.is_empty() && rep.violations == 0 {
        eprintln!("[{}] infrastructure failures occurred: no verdict", prop.id);
        return 2;
    }
    rep.exit_code()
}

pub fn replay(prop: &CliProp, v: &Value) -> i32 {
    let Some(case) = CliCase::from_json(&v["cli_case"]) else {
        eprintln!("replay file has no cli_case");
        return 2;
    };
    match judge(prop, &case) {
        Ok((verdict, run)) => {
            println!("argv: {:?}\ncwd: {:?}\nenv: {:?}", case.argv, case.cwd, case.env);
            println!("exit: {:?}\nstdout:\n{}\nstderr:\n{}", run.code, String::from_utf8_lossy(&run.stdout), String::from_utf8_lossy(&run.stderr));
            match verdict {
                Verdict::Fail(d) => {
                    println!("VIOLATION property={} replay=<given> :: {d}", prop.id);
                    1
                }
                other => {
                    println!("no violation: {other:?}");
                    0
                }
            }
        }
        Err(e) => {
            eprintln!("infrastructure: {e}");
            2
        }
    }
}
