//! Generator for programs whose top level interleaves require / GetService locals with other
//! statements, blank lines, comments and ignore directives (C12, and the sort x range part of C09).

use crate::lex::Syntax;
use crate::tape::Tape;

const NAMES: [&str; 14] = ["a", "b", "B", "ab", "abc", "Abc", "z", "aa", "A", "foo", "Foo", "bar", "_x", "a1"];
const SERVICES: [&str; 5] = ["Players", "ReplicatedStorage", "RunService", "Workspace", "Lighting"];

pub struct ReqOpts {
    pub ignores: bool,
    pub regions: bool,
    /// block comments in front of `local` on the statement's own line (the formatter moves them onto a line of their
    /// own, which splits the group on the next run)
    pub inline_comments: bool,
}

pub fn generate(t: &mut Tape, syn: Syntax, o: &ReqOpts, labels: &mut Vec<&'static str>) -> String {
    let luau = syn == Syntax::Luau;
    let mut out = String::new();
    let n = 2 + t.pick(10);
    let mut cid = 0;
    if t.chance(20) {
        // a long group (more than twenty members) in which names repeat: the sort must keep equal names in input order,
        // whatever algorithm sorts long slices
        let len = 21 + t.pick(40);
        for i in 0..len {
            let name = NAMES[t.pick(5)];
            out.push_str(&format!("local {name} = require(\"m{i}\")\n"));
        }
        labels.push("long-group-with-repeated-names");
        if t.chance(128) {
            out.push('\n');
        }
    }
    for i in 0..n {
        // separators
        if i > 0 {
            match t.pick(8) {
                0 => {
                    out.push('\n');
                    labels.push("blank-line-between");
                }
                1 => {
                    out.push_str("\n\n");
                }
                _ => {}
            }
        }
        // leading comment / directive
        match t.pick(12) {
            0 | 1 => {
                cid += 1;
                out.push_str(&format!("-- comment {cid}\n"));
                labels.push("leading-comment");
            }
            2 => {
                cid += 1;
                out.push_str(&format!("--[[ block {cid} ]]\n"));
            }
            6 if o.inline_comments => {
                // on the statement's own line
                cid += 1;
                out.push_str(&format!("--[[ i{cid} ]] "));
                labels.push("inline-leading-comment");
            }
            3 if o.ignores => {
                out.push_str("-- stylua: ignore\n");
                labels.push("ignore");
            }
            4 if o.regions => {
                out.push_str("-- stylua: ignore start\n");
                labels.push("ignore-region");
            }
            5 if o.regions => {
                out.push_str("-- stylua: ignore end\n");
            }
            _ => {}
        }
        let mut kind = t.pick(12);
        let name = NAMES[t.pick(NAMES.len())];
        // a statement beginning with `(` needs a `;` in front of it, or it continues the previous statement
        let after_semicolon = out.trim_end_matches(|c: char| c == ' ' || c == '\n').ends_with(';');
        if kind >= 10 && !after_semicolon {
            kind = 9;
        }
        match kind {
            0..=4 => {
                // require
                out.push_str("local ");
                out.push_str(name);
                if t.chance(30) {
                    out.push_str("  ");
                } else {
                    out.push(' ');
                }
                out.push_str("= ");
                let form = t.pick(8);
                let body = match form {
                    0 => format!("require(\"{name}\")"),
                    1 => format!("require('./{name}')"),
                    2 => format!("require(script.Parent.{name})"),
                    3 => format!("require \"{name}\""),
                    4 => {
                        labels.push("multi-line-require");
                        format!("require(\n\t\"mods/{name}\"\n)")
                    }
                    5 => format!("require(\"{name}\").sub"),
                    6 => format!("require(\"pkg\" .. \"/{name}\")"),
                    _ => format!("require(script.Parent:WaitForChild(\"{name}\"))"),
                };
                out.push_str(&body);
                if luau && t.chance(50) {
                    out.push_str(" :: any");
                    labels.push("type-assertion");
                }
                labels.push("require");
            }
            5 | 6 => {
                out.push_str(&format!("local {name} = game:GetService(\"{}\")", SERVICES[t.pick(SERVICES.len())]));
                labels.push("getservice");
            }
            7 => {
                out.push_str(&format!("local {name}, other = require(\"{name}\")"));
                labels.push("multi-name-local");
            }
            8 => {
                out.push_str(&format!("local {name} = compute({name}, 1)"));
                labels.push("other-statement");
            }
            9 => {
                out.push_str(&format!("print({name})"));
                labels.push("other-statement");
            }
            10 => {
                out.push_str(&format!("({name}).x = 1"));
                labels.push("paren-start-statement");
            }
            _ => {
                out.push_str(&format!("({name})(1)"));
                labels.push("paren-start-statement");
            }
        }
        if t.chance(50) {
            out.push(';');
            labels.push("semicolon");
        }
        match t.pick(8) {
            0 => {
                cid += 1;
                out.push_str(&format!(" -- trailing {cid}"));
                labels.push("trailing-comment");
            }
            1 => {
                cid += 1;
                out.push_str(&format!(" --[[ t{cid} ]]"));
            }
            _ => {}
        }
        // two statements on one line now and then
        if t.chance(14) && !out.ends_with(|c: char| c != ';' && c != ')' && c != '"' && !c.is_alphanumeric()) && !out.contains("-- trailing") {
            out.push_str(if out.ends_with(';') { " " } else { "; " });
        } else {
            out.push('\n');
        }
    }
    if t.chance(60) {
        out.push_str("return a\n");
    }
    out
}
