//! G1: grammar-based program generator, decoded from a choice tape.
//!
//! Programs are sound by construction (they parse under the chosen syntax); the layout layer
//! chooses whitespace, line breaks, semicolons, redundant parentheses and comments. Comment
//! placement is controlled by `GenOpts` so that verdicts are only given on whitelisted roles.

use crate::lex::Syntax;
use crate::tape::Tape;
use std::collections::BTreeSet;

#[derive(Clone, Copy, Debug, PartialEq, Eq)]
pub struct GenOpts {
    /// own-line comments before statements
    pub c_before_stmt: bool,
    /// block comment on the same line after a statement
    pub c_after_stmt_block: bool,
    /// line comment at the end of a statement's line
    pub c_after_stmt_line: bool,
    /// comments before table fields / arguments on their own line, and after separators
    pub c_fields: bool,
    /// line / block comment directly after a block opener (`then`, `do`, `else`, `repeat`, function header)
    pub c_after_opener: bool,
    /// line comments between the members of the union / intersection of a type declaration
    pub c_type_members: bool,
    /// redundant parentheses (conditions, sub-expressions) even in `clean` programs
    pub redundant_parens: bool,
    /// comment on its own line after the last statement of a nested block (before `end` / `else` / `until`)
    pub c_block_end: bool,
    /// comment on its own line between an `if` condition and `then`
    pub c_before_then: bool,
    /// comments at arbitrary token gaps (exploratory)
    pub c_anywhere: bool,
    /// `-- stylua: ignore` directives
    pub ignores: bool,
    /// random line breaks inside statements
    pub inner_newlines: bool,
    /// clean layout: single spaces, no redundant parentheses / semicolons, single-line tables in the input
    pub clean: bool,
    /// flat expressions: no anonymous functions and no multi-line strings inside expressions
    pub flat: bool,
    /// maximum number of top-level statements
    pub max_stmts: usize,
    /// node budget
    pub budget: usize,
}

impl GenOpts {
    pub fn plain() -> GenOpts {
        GenOpts {
            c_before_stmt: false,
            c_after_stmt_block: false,
            c_after_stmt_line: false,
            c_fields: false,
            c_after_opener: false,
            c_before_then: false,
            c_block_end: false,
            redundant_parens: false,
            c_type_members: false,
            c_anywhere: false,
            ignores: false,
            inner_newlines: true,
            clean: false,
            flat: false,
            max_stmts: 4,
            budget: 30,
        }
    }
    pub fn clean() -> GenOpts {
        GenOpts { inner_newlines: false, clean: true, flat: true, ..GenOpts::plain() }
    }
    pub fn stmt_comments() -> GenOpts {
        GenOpts { c_before_stmt: true, c_after_stmt_block: true, c_after_stmt_line: true, c_after_opener: true, c_fields: true, c_before_then: true, c_block_end: true, c_type_members: true, ..GenOpts::plain() }
    }
}

pub struct Generated {
    pub source: String,
    pub labels: BTreeSet<&'static str>,
    pub comments: usize,
}

struct G<'a, 'b> {
    t: &'b mut Tape<'a>,
    syn: Syntax,
    o: GenOpts,
    out: String,
    budget: isize,
    indent: usize,
    labels: BTreeSet<&'static str>,
    comments: usize,
    comment_id: usize,
    in_loop: usize,
    in_vararg: bool,
    label_id: usize,
    /// the previous statement of the current block ended with `;` (or there is none)
    prev_terminated: bool,
    /// odd spacing (used for code that is ignored and must be reproduced verbatim)
    messy: bool,
    /// output length right after a type assertion that is not wrapped in parentheses
    bare_assertion_end: usize,
    /// the block opener just written ends with a Luau return type: a line comment after it is swallowed
    /// (known finding KF-return-type-comment), so no opener comment is generated there
    opener_has_return_type: bool,
}

const SHORT_NAMES: [&str; 10] = ["a", "b", "c", "x", "y", "foo", "bar", "baz", "self", "t"];
const LONG_NAMES: [&str; 6] = [
    "someLongIdentifierName",
    "anotherQuiteLongVariableName",
    "configuration_table_entry",
    "veryVeryVeryLongFunctionNameForWrapping",
    "ReplicatedStorageServiceInstance",
    "callbackHandlerRegistry",
];
const FIELD_NAMES: [&str; 8] = ["x", "name", "value", "Parent", "new", "connect", "items", "longFieldNameForTesting"];
const TYPE_NAMES: [&str; 6] = ["number", "string", "boolean", "any", "Foo", "Array"];

pub fn generate(t: &mut Tape, syn: Syntax, opts: GenOpts) -> Generated {
    let mut g = G {
        t,
        syn,
        o: opts,
        out: String::new(),
        budget: opts.budget as isize,
        indent: 0,
        labels: BTreeSet::new(),
        comments: 0,
        comment_id: 0,
        in_loop: 0,
        in_vararg: true,
        label_id: 0,
        prev_terminated: true,
        messy: false,
        bare_assertion_end: usize::MAX,
        opener_has_return_type: false,
    };
    if g.t.chance(6) {
        g.out.push_str("#!/usr/bin/env lua\n");
        g.labels.insert("shebang");
        g.comments += 1;
    }
    let n = 1 + g.t.pick(opts.max_stmts.max(1));
    g.block_body(n, true);
    if g.o.c_before_stmt && g.t.chance(20) {
        // comment at end of file
        g.own_line_comment();
        g.labels.insert("c:eof");
    }
    if g.t.chance(40) {
        // missing final newline / extra blank lines at the end
        while g.out.ends_with('\n') {
            g.out.pop();
        }
        if g.t.chance(128) {
            g.out.push_str("\n\n\n");
        }
    }
    Generated { source: g.out, labels: g.labels, comments: g.comments }
}

impl<'a, 'b> G<'a, 'b> {
    fn luau(&self) -> bool {
        self.syn == Syntax::Luau
    }
    fn push(&mut self, s: &str) {
        self.out.push_str(s);
    }
    /// mandatory separator between two tokens
    fn sp(&mut self) {
        if self.o.clean {
            self.push(" ");
            return;
        }
        if self.messy {
            let w = ["  ", " ", "   ", "\t", " \t "][self.t.pick(5)];
            self.push(w);
            return;
        }
        if self.o.c_anywhere && self.t.chance(24) {
            self.any_comment();
            return;
        }
        match self.t.pick(32) {
            0..=27 => self.push(" "),
            28 => self.push("  "),
            29 => self.push("\t"),
            _ => {
                if self.o.inner_newlines {
                    self.push("\n");
                    self.write_indent(1);
                    self.labels.insert("inner-newline");
                } else {
                    self.push(" ");
                }
            }
        }
    }
    /// optional separator (may be empty)
    fn opt(&mut self) {
        if self.o.clean {
            return;
        }
        if self.messy {
            let w = ["", " ", "  "][self.t.pick(3)];
            self.push(w);
            return;
        }
        if self.o.c_anywhere && self.t.chance(12) {
            self.any_comment();
            return;
        }
        match self.t.pick(32) {
            0..=25 => {}
            26..=29 => self.push(" "),
            _ => {
                if self.o.inner_newlines {
                    self.push("\n");
                    self.write_indent(1);
                    self.labels.insert("inner-newline");
                }
            }
        }
    }
    fn write_indent(&mut self, extra: usize) {
        for _ in 0..(self.indent + extra) {
            self.out.push('\t');
        }
    }
    fn comment_text(&mut self) -> String {
        self.comment_id += 1;
        let id = self.comment_id;
        match self.t.pick(6) {
            0 => format!("c{id}"),
            1 => format!(" comment {id}"),
            2 => format!(" c{id} with 'quotes' and \"doubles\""),
            3 => format!("- dash {id} --"),
            4 => format!(" TODO(c{id}): x = 1"),
            _ => format!(" c{id}   "),
        }
    }
    fn block_comment(&mut self) -> String {
        let txt = self.comment_text();
        self.comments += 1;
        match self.t.pick(5) {
            0 | 1 => format!("--[[{txt}]]"),
            2 => format!("--[=[{txt} ]] ]=]"),
            3 => {
                self.labels.insert("c:multiline-block");
                format!("--[[{txt}\n  second line\n]]")
            }
            _ => format!("--[==[{txt}]==]"),
        }
    }
    fn line_comment(&mut self) -> String {
        let txt = self.comment_text();
        self.comments += 1;
        if self.t.chance(40) {
            format!("---{txt}")
        } else {
            format!("--{txt}")
        }
    }
    /// comment on its own line(s) at the current indent; leaves the cursor at line start
    fn own_line_comment(&mut self) {
        self.write_indent(0);
        let c = if self.t.chance(90) { self.block_comment() } else { self.line_comment() };
        self.push(&c);
        if c.ends_with(']') && self.t.chance(30) {
            // a second comment touching the first one
            let c2 = if self.t.chance(128) { self.block_comment() } else { self.line_comment() };
            self.push(&c2);
            self.labels.insert("c:touching-comments");
        }
        self.push("\n");
    }
    /// exploratory: a comment in an arbitrary gap
    fn any_comment(&mut self) {
        self.labels.insert("c:anywhere");
        match self.t.pick(3) {
            0 => {
                let c = self.block_comment();
                self.push(" ");
                self.push(&c);
                self.push(" ");
            }
            1 => {
                let c = self.line_comment();
                self.push(" ");
                self.push(&c);
                self.push("\n");
                self.write_indent(1);
            }
            _ => {
                self.push("\n");
                self.write_indent(1);
                let c = if self.t.chance(128) { self.block_comment() } else { self.line_comment() };
                self.push(&c);
                self.push("\n");
                self.write_indent(1);
            }
        }
    }

    fn name(&mut self) -> &'static str {
        if self.t.chance(40) {
            LONG_NAMES[self.t.pick(LONG_NAMES.len())]
        } else {
            SHORT_NAMES[self.t.pick(SHORT_NAMES.len())]
        }
    }
    fn local_name(&mut self) -> &'static str {
        // never `self` as a declared local/param to keep programs plausible
        let n = self.name();
        if n == "self" {
            "this"
        } else {
            n
        }
    }

    // -------------------------------------------------------------------- statements

    fn block_body(&mut self, n: usize, top: bool) {
        let mut i = 0;
        let mut region_open = false;
        self.prev_terminated = true;
        if !self.o.clean && self.t.chance(24) {
            // blank line(s) at the start of the block
            self.push("\n");
            if self.t.chance(80) {
                self.push("\n");
            }
            self.labels.insert("blank-line-at-block-start");
        }
        while i < n {
            let last = i + 1 == n;
            // blank lines between statements
            if i > 0 && self.t.chance(50) {
                self.push("\n");
                if self.t.chance(60) {
                    self.push("\n");
                }
                self.labels.insert("blank-lines");
            }
            if self.o.c_before_stmt && self.t.chance(36) {
                self.own_line_comment();
                self.labels.insert("c:before-stmt");
                if self.t.chance(40) {
                    self.own_line_comment();
                }
            }
            let mut messy_stmt = false;
            if self.o.ignores {
                match self.t.pick(20) {
                    0 | 1 | 2 => {
                        self.write_indent(0);
                        let d = if self.t.chance(40) { "--stylua: ignore\n" } else { "-- stylua: ignore\n" };
                        self.push(d);
                        self.labels.insert("ignore");
                        messy_stmt = true;
                        if self.o.c_before_stmt && self.t.chance(70) {
                            // further comments between the directive and the node
                            self.own_line_comment();
                            self.labels.insert("ignore-then-comment");
                        }
                    }
                    3 if !region_open => {
                        self.write_indent(0);
                        self.push("-- stylua: ignore start\n");
                        self.labels.insert("ignore-start");
                        region_open = true;
                    }
                    4 | 5 if region_open => {
                        self.write_indent(0);
                        self.push("-- stylua: ignore end\n");
                        self.labels.insert("ignore-end");
                        region_open = false;
                    }
                    6 if !region_open && self.t.chance(60) => {
                        // an end without a start
                        self.write_indent(0);
                        self.push("-- stylua: ignore end\n");
                    }
                    _ => {}
                }
            }
            self.write_indent(0);
            let saved_messy = self.messy;
            if messy_stmt || region_open {
                self.messy = true;
            }
            let is_last_stmt = last && self.t.chance(if top { 50 } else { 90 });
            if is_last_stmt {
                self.last_stmt();
            } else {
                self.stmt();
            }
            self.messy = saved_messy;
            // semicolon
            if !self.o.clean && self.t.chance(40) {
                self.opt_plain();
                self.push(";");
                self.labels.insert("semicolon");
                self.prev_terminated = true;
            } else {
                self.prev_terminated = false;
            }
            // trailing comment
            if self.o.c_after_stmt_block && self.t.chance(20) {
                let c = self.block_comment();
                self.push(" ");
                self.push(&c);
                self.labels.insert("c:after-stmt-block");
            }
            if self.o.c_after_stmt_line && self.t.chance(24) {
                let c = self.line_comment();
                self.push(" ");
                self.push(&c);
                self.labels.insert("c:after-stmt-line");
                self.push("\n");
            } else if !last && !self.o.clean && self.t.chance(16) {
                // two statements on one line
                self.push(if self.out.ends_with(';') { " " } else { "; " });
                self.labels.insert("same-line-stmts");
                self.prev_terminated = true;
                // continue on the same line: suppress indent by marking
                i += 1;
                if i < n {
                    self.stmt_inline_follow(i + 1 == n, top);
                    self.prev_terminated = false;
                }
                self.push("\n");
            } else {
                // trailing whitespace sometimes
                if !self.o.clean && self.t.chance(12) {
                    self.push("  ");
                }
                let nl = if !self.o.clean && self.t.chance(10) { "\r\n" } else { "\n" };
                self.push(nl);
            }
            i += 1;
        }
        if self.o.c_block_end && !top && self.t.chance(30) {
            self.own_line_comment();
            self.labels.insert("c:block-end");
        }
    }
    fn stmt_inline_follow(&mut self, last: bool, top: bool) {
        if last && self.t.chance(if top { 50 } else { 90 }) {
            self.last_stmt();
        } else {
            self.stmt();
        }
    }
    /// optional space without comments/newlines
    fn opt_plain(&mut self) {
        if !self.o.clean && self.t.chance(30) {
            self.push(" ");
        }
    }

    fn nested_block(&mut self) {
        // body of a block statement; cursor is after the opener token
        self.indent += 1;
        let mut n = if self.budget <= 0 { 0 } else { self.t.pick(4) };
        let blocked = self.opener_has_return_type;
        self.opener_has_return_type = false;
        let _ = blocked;
        if self.o.c_after_opener && self.t.chance(50) {
            let c = if self.t.chance(100) { self.block_comment() } else { self.line_comment() };
            self.push(" ");
            self.push(&c);
            self.labels.insert("c:after-opener");
            if n == 0 {
                n = 1;
            }
        }
        if n == 0 {
            if self.t.chance(128) {
                self.push("\n");
            } else {
                self.push(" ");
                self.indent -= 1;
                return;
            }
        } else {
            self.push("\n");
            self.block_body(n, false);
        }
        self.indent -= 1;
        self.write_indent(0);
    }

    fn stmt(&mut self) {
        self.budget -= 1;
        let simple = self.budget <= 0;
        let k = if simple { self.t.pick(3) } else { self.t.pick(20) };
        match k {
            0 => self.local_assign(),
            1 => self.assign(),
            2 => self.call_stmt(),
            3 => self.local_assign(),
            4 => self.call_stmt(),
            5 => {
                self.labels.insert("s:do");
                self.push("do");
                self.nested_block();
                self.push("end");
            }
            6 => {
                self.labels.insert("s:while");
                self.push("while");
                self.sp();
                self.cond_expr();
                self.cond_gap(false);
                self.push("do");
                self.in_loop += 1;
                self.nested_block();
                self.in_loop -= 1;
                self.push("end");
            }
            7 => {
                self.labels.insert("s:repeat");
                self.push("repeat");
                self.in_loop += 1;
                self.nested_block();
                self.in_loop -= 1;
                self.push("until");
                self.sp();
                self.cond_expr();
            }
            8 | 9 => self.if_stmt(),
            10 => {
                self.labels.insert("s:numfor");
                self.push("for");
                self.sp();
                let n = self.local_name();
                self.push(n);
                self.sp();
                self.push("=");
                self.sp();
                self.expr(2);
                self.opt_plain();
                self.push(",");
                self.sp();
                self.expr(2);
                if self.t.chance(80) {
                    self.opt_plain();
                    self.push(",");
                    self.sp();
                    self.expr(1);
                }
                self.sp();
                self.push("do");
                self.in_loop += 1;
                self.nested_block();
                self.in_loop -= 1;
                self.push("end");
            }
            11 => {
                self.labels.insert("s:genfor");
                self.push("for");
                self.sp();
                let n = 1 + self.t.pick(3);
                for i in 0..n {
                    if i > 0 {
                        self.push(",");
                        self.sp();
                    }
                    let nm = self.local_name();
                    self.push(nm);
                }
                self.sp();
                self.push("in");
                self.sp();
                match self.t.pick(4) {
                    0 => {
                        self.push("pairs(");
                        self.expr(1);
                        self.push(")");
                    }
                    1 => {
                        self.push("ipairs(");
                        self.expr(1);
                        self.push(")");
                    }
                    2 => {
                        self.push("next,");
                        self.sp();
                        self.expr(1);
                    }
                    _ => self.expr(2),
                }
                self.sp();
                self.push("do");
                self.in_loop += 1;
                self.nested_block();
                self.in_loop -= 1;
                self.push("end");
            }
            12 | 13 => self.function_decl(),
            14 => self.local_function(),
            15 if self.syn.has_goto() => {
                self.labels.insert("s:goto");
                if self.t.chance(128) {
                    self.label_id += 1;
                    let s = format!("::label{}::", self.label_id);
                    self.push(&s);
                } else {
                    self.push("goto");
                    self.sp();
                    self.push("continue_label");
                }
            }
            15 | 16 if self.luau() => self.luau_stmt(),
            17 if self.prev_terminated => self.paren_start_stmt(),
            18 => self.assign(),
            _ => self.call_stmt(),
        }
    }

    fn last_stmt(&mut self) {
        self.budget -= 1;
        match self.t.pick(8) {
            0 if self.in_loop > 0 => {
                self.labels.insert("s:break");
                self.push("break");
            }
            1 if self.in_loop > 0 && self.luau() => {
                self.labels.insert("s:continue");
                self.push("continue");
            }
            _ => {
                self.labels.insert("s:return");
                self.push("return");
                let n = self.t.pick(4);
                for i in 0..n {
                    if i > 0 {
                        self.opt_plain();
                        self.push(",");
                    }
                    self.sp();
                    self.expr(3);
                }
            }
        }
    }

    fn attrib(&mut self) {
        if self.syn == Syntax::Lua54 && self.t.chance(60) {
            self.labels.insert("attrib");
            self.opt_plain();
            let a = if self.t.chance(128) { "<const>" } else { "<close>" };
            self.push(a);
        }
    }

    fn type_annotation(&mut self) {
        if self.luau() && self.t.chance(70) {
            self.labels.insert("type-annotation");
            self.opt_plain();
            self.push(":");
            self.opt_plain();
            self.type_expr(2);
        }
    }

    fn local_assign(&mut self) {
        self.labels.insert("s:local");
        self.push("local");
        self.sp();
        let n = 1 + self.t.pick(3).min(self.t.pick(3));
        for i in 0..n {
            if i > 0 {
                self.opt_plain();
                self.push(",");
                self.sp();
            }
            let nm = self.local_name();
            self.push(nm);
            self.attrib();
            self.type_annotation();
        }
        if self.t.chance(230) {
            self.sp();
            self.push("=");
            let m = 1 + self.t.pick(3).min(self.t.pick(3));
            for i in 0..m {
                if i > 0 {
                    self.opt_plain();
                    self.push(",");
                }
                self.sp();
                self.expr(4);
            }
        }
    }

    fn assign(&mut self) {
        self.labels.insert("s:assign");
        let n = 1 + self.t.pick(3).min(self.t.pick(2));
        for i in 0..n {
            if i > 0 {
                self.opt_plain();
                self.push(",");
                self.sp();
            }
            self.var();
        }
        self.sp();
        if self.luau() && n == 1 && self.t.chance(110) {
            self.labels.insert("compound-assign");
            let ops = ["+=", "-=", "*=", "/=", "//=", "%=", "^=", "..="];
            let op = ops[self.t.pick(ops.len())];
            self.push(op);
            self.sp();
            self.expr(3);
            return;
        }
        self.push("=");
        let m = 1 + self.t.pick(3).min(self.t.pick(2));
        for i in 0..m {
            if i > 0 {
                self.opt_plain();
                self.push(",");
            }
            self.sp();
            self.expr(4);
        }
    }

    /// assignable expression not starting with a parenthesis
    fn var(&mut self) {
        let n = self.name();
        self.push(n);
        let k = self.t.pick(4);
        for _ in 0..k {
            self.index_suffix();
        }
    }

    fn index_suffix(&mut self) {
        if self.t.chance(170) {
            self.opt();
            self.push(".");
            self.opt();
            let f = FIELD_NAMES[self.t.pick(FIELD_NAMES.len())];
            self.push(f);
        } else {
            self.opt();
            self.push("[");
            self.opt();
            match self.t.pick(5) {
                0 => {
                    // long bracket key: needs a space after `[`
                    if !self.out.ends_with(' ') && !self.out.ends_with('\n') && !self.out.ends_with('\t') {
                        self.push(" ");
                    }
                    self.labels.insert("bracket-string-index");
                    self.push("[[key]]");
                    self.push(" ");
                }
                1 => self.string_lit(),
                _ => self.expr(2),
            }
            self.opt();
            self.push("]");
        }
    }

    fn call_stmt(&mut self) {
        self.labels.insert("s:call");
        let n = self.name();
        self.push(n);
        let k = self.t.pick(3);
        for _ in 0..k {
            if self.t.chance(200) {
                self.index_suffix();
            } else {
                self.call_suffix(3);
            }
        }
        self.call_suffix(4);
    }

    /// statement that starts with a parenthesis: `(f)()`, `(a).b = 1`, `("s"):m()`
    fn paren_start_stmt(&mut self) {
        self.labels.insert("s:paren-start");
        self.push("(");
        self.opt();
        match self.t.pick(3) {
            0 => {
                let n = self.name();
                self.push(n);
            }
            1 => self.string_lit(),
            _ => self.expr(2),
        }
        self.opt();
        self.push(")");
        if self.t.chance(60) {
            self.index_suffix();
            if self.t.chance(128) {
                self.sp();
                self.push("=");
                self.sp();
                self.expr(2);
                return;
            }
        }
        self.call_suffix(3);
    }

    fn call_suffix(&mut self, depth: usize) {
        if self.t.chance(60) {
            self.opt();
            self.push(":");
            self.opt();
            let f = FIELD_NAMES[self.t.pick(FIELD_NAMES.len())];
            self.push(f);
            self.labels.insert("method-call");
        }
        match self.t.pick(10) {
            0 => {
                self.labels.insert("call-sugar-string");
                self.opt_plain();
                self.string_lit();
            }
            1 => {
                self.labels.insert("call-sugar-table");
                self.opt_plain();
                self.table(depth.saturating_sub(1));
            }
            _ => {
                self.opt();
                self.push("(");
                let n = self.t.pick(4);
                // a comment before a sole table / string argument whose call parentheses are removed is mis-indented
                // (same family as KF-call-paren-comment): argument comments are generated for two or more arguments
                let multiline_args = self.o.c_fields && n > 1 && self.t.chance(80);
                for i in 0..n {
                    if i > 0 {
                        self.opt_plain();
                        self.push(",");
                        if multiline_args {
                            if self.t.chance(80) {
                                let c = self.line_comment();
                                self.push(" ");
                                self.push(&c);
                                self.labels.insert("c:after-arg-sep");
                            }
                        } else {
                            self.sp();
                        }
                    } else if !multiline_args {
                        self.opt();
                    }
                    if multiline_args {
                        self.push("\n");
                        if self.t.chance(60) {
                            self.write_indent(1);
                            let c = if self.t.chance(128) { self.block_comment() } else { self.line_comment() };
                            self.push(&c);
                            self.push("\n");
                            self.labels.insert("c:before-arg");
                        }
                        self.write_indent(1);
                    }
                    self.expr(depth.saturating_sub(1));
                }
                if multiline_args {
                    self.push("\n");
                    self.write_indent(0);
                } else {
                    self.opt();
                }
                self.push(")");
            }
        }
    }

    fn cond_expr(&mut self) {
        if (!self.o.clean || self.o.redundant_parens) && self.t.chance(50) {
            self.labels.insert("cond-parens");
            let double = self.t.chance(60);
            self.push(if double { "((" } else { "(" });
            self.opt();
            self.expr(3);
            self.opt();
            self.push(if double { "))" } else { ")" });
        } else {
            self.expr(3);
        }
    }

    /// the gap between a condition and its `then` / `do`: a blank, a comment on its own line, or a line comment at the
    /// end of the condition's line with the keyword on the next line
    fn cond_gap(&mut self, own_line: bool) {
        if self.o.c_before_then && own_line && self.t.chance(40) {
            self.push("\n");
            self.write_indent(1);
            let c = if self.t.chance(128) { self.block_comment() } else { self.line_comment() };
            self.push(&c);
            self.push("\n");
            self.write_indent(0);
            self.labels.insert("c:before-then");
        } else if self.o.c_before_then && self.t.chance(24) {
            let c = self.line_comment();
            self.push(" ");
            self.push(&c);
            self.push("\n");
            self.write_indent(0);
            self.labels.insert("c:after-condition");
        } else {
            self.sp();
        }
    }

    fn if_stmt(&mut self) {
        self.labels.insert("s:if");
        self.push("if");
        self.sp();
        self.cond_expr();
        self.cond_gap(true);
        self.push("then");
        self.nested_block();
        let n = if self.budget > 0 { self.t.pick(3).min(self.t.pick(3)) } else { 0 };
        for _ in 0..n {
            self.push("elseif");
            self.sp();
            self.cond_expr();
            self.cond_gap(false);
            self.push("then");
            self.nested_block();
        }
        if self.t.chance(70) {
            self.push("else");
            self.nested_block();
        }
        self.push("end");
    }

    fn params(&mut self) {
        self.opt_plain();
        self.push("(");
        let n = self.t.pick(4);
        let mut vararg = false;
        for i in 0..n {
            if i > 0 {
                self.push(",");
                self.sp();
            }
            if i + 1 == n && self.t.chance(60) {
                self.push("...");
                vararg = true;
                if self.luau() && self.t.chance(80) {
                    self.push(": ");
                    self.type_expr(1);
                }
            } else {
                let nm = self.local_name();
                self.push(nm);
                self.type_annotation();
            }
        }
        self.push(")");
        self.opener_has_return_type = false;
        if self.luau() && self.t.chance(60) {
            self.labels.insert("return-type");
            self.push(": ");
            self.type_expr(2);
            self.opener_has_return_type = true;
        }
        self.in_vararg = vararg;
    }

    fn function_body(&mut self) {
        let saved_vararg = self.in_vararg;
        let saved_loop = self.in_loop;
        self.in_loop = 0;
        if self.luau() && self.t.chance(40) {
            self.labels.insert("generics");
            self.push("<T>");
        }
        self.params();
        self.nested_block();
        self.push("end");
        self.in_vararg = saved_vararg;
        self.in_loop = saved_loop;
    }

    fn function_decl(&mut self) {
        self.labels.insert("s:function");
        self.push("function");
        self.sp();
        let n = self.name();
        self.push(if n == "self" { "obj" } else { n });
        let k = self.t.pick(3);
        for _ in 0..k {
            self.push(".");
            let f = FIELD_NAMES[self.t.pick(FIELD_NAMES.len())];
            self.push(f);
        }
        if self.t.chance(60) {
            self.push(":");
            let f = FIELD_NAMES[self.t.pick(FIELD_NAMES.len())];
            self.push(f);
        }
        self.function_body();
    }

    fn local_function(&mut self) {
        self.labels.insert("s:local-function");
        self.push("local");
        self.sp();
        self.push("function");
        self.sp();
        let n = self.local_name();
        self.push(n);
        self.function_body();
    }

    fn luau_stmt(&mut self) {
        match self.t.pick(3) {
            0 | 1 => {
                self.labels.insert("s:type-decl");
                if self.t.chance(80) {
                    self.push("export ");
                }
                self.push("type");
                self.sp();
                let tn = ["Foo", "Bar", "Props", "State"][self.t.pick(4)];
                self.push(tn);
                if self.t.chance(60) {
                    // generic parameters, some with defaults (the default of a variadic one is a type pack)
                    let g = ["<T>", "<T>", "<T, U>", "<T = string>", "<T, R... = ()>", "<R... = (number)>", "<T, R... = (string, number)>", "<R... = ...any>"][self.t.pick(8)];
                    self.push(g);
                    if g.contains('=') {
                        self.labels.insert("type-generic-default");
                    }
                }
                self.sp();
                self.push("=");
                self.sp();
                if self.o.c_type_members && self.t.chance(50) {
                    // a union / intersection written one member per line, with line comments after a member, after an
                    // operator (in front of the next member) or on a line of their own
                    self.labels.insert("c:type-members");
                    let op = if self.t.chance(128) { "|" } else { "&" };
                    let n = 2 + self.t.pick(3);
                    for i in 0..n {
                        if i > 0 {
                            match self.t.pick(4) {
                                0 => {
                                    // `A &⏎ -- c⏎ B`
                                    self.push(" ");
                                    self.push(op);
                                    self.push("\n");
                                    self.write_indent(1);
                                    let c = self.line_comment();
                                    self.push(&c);
                                    self.push("\n");
                                    self.write_indent(1);
                                }
                                1 => {
                                    // `A -- c⏎ & B`
                                    let c = self.line_comment();
                                    self.push(" ");
                                    self.push(&c);
                                    self.push("\n");
                                    self.write_indent(1);
                                    self.push(op);
                                    self.push(" ");
                                }
                                2 => {
                                    // `A⏎ -- c⏎ & B`
                                    self.push("\n");
                                    self.write_indent(1);
                                    let c = self.line_comment();
                                    self.push(&c);
                                    self.push("\n");
                                    self.write_indent(1);
                                    self.push(op);
                                    self.push(" ");
                                }
                                _ => {
                                    self.push("\n");
                                    self.write_indent(1);
                                    self.push(op);
                                    self.push(" ");
                                }
                            }
                        }
                        let t = ["Alpha", "\"lit\"", "{ x: number }", "Beta<T>", "nil"][self.t.pick(5)];
                        self.push(t);
                    }
                } else {
                    self.type_expr(3);
                }
            }
            _ => self.local_assign(),
        }
    }

    // -------------------------------------------------------------------- types (Luau)

    fn type_expr(&mut self, depth: usize) {
        self.budget -= 1;
        let k = if depth == 0 || self.budget <= 0 { self.t.pick(2) } else { self.t.pick(10) };
        match k {
            0 | 1 => {
                let t = TYPE_NAMES[self.t.pick(TYPE_NAMES.len())];
                self.push(t);
                if t == "Array" {
                    self.push("<");
                    self.type_expr(depth.saturating_sub(1));
                    // `>>` is one token for the lexer but two for the type grammar: positions of the enclosing
                    // nodes are then off by one, so nested generics are written `> >`
                    // (clean programs are never combined with a range and must not contain a spelling the formatter shortens)
                    if self.out.ends_with('>') && !self.o.clean {
                        self.push(" ");
                    }
                    self.push(">");
                }
            }
            2 => {
                self.type_expr(depth - 1);
                self.push("?");
            }
            3 => {
                self.labels.insert("type-union");
                let n = 2 + self.t.pick(3);
                for i in 0..n {
                    if i > 0 {
                        self.sp();
                        self.push("|");
                        self.sp();
                    }
                    if i + 1 == n && self.t.chance(40) {
                        // a bare function type as the last member: everything after `->` belongs to its return type
                        self.labels.insert("type-union-trailing-callback");
                        self.push("(x: number) -> ");
                        self.type_atom(depth - 1);
                    } else {
                        self.type_atom(depth - 1);
                    }
                }
            }
            4 => {
                self.labels.insert("type-intersection");
                self.type_atom(depth - 1);
                self.sp();
                self.push("&");
                self.sp();
                if self.t.chance(60) {
                    self.labels.insert("type-intersection-trailing-callback");
                    self.push("(x: number) -> ");
                }
                self.type_atom(depth - 1);
            }
            5 | 6 => {
                self.labels.insert("type-table");
                self.push("{");
                if self.t.chance(40) {
                    // array type, with or without an access modifier
                    self.labels.insert("type-array");
                    self.sp();
                    match self.t.pick(4) {
                        0 => self.push("read "),
                        1 => self.push("write "),
                        _ => {}
                    }
                    self.type_expr(depth - 1);
                    self.sp();
                    self.push("}");
                    return;
                }
                let n = self.t.pick(4);
                if n > 0 {
                    self.sp();
                }
                for i in 0..n {
                    if i > 0 {
                        self.push(",");
                        self.sp();
                    }
                    match self.t.pick(8) {
                        0 => {
                            self.push("read ");
                            self.labels.insert("type-access-modifier");
                        }
                        1 => {
                            self.push("write ");
                            self.labels.insert("type-access-modifier");
                        }
                        _ => {}
                    }
                    if self.t.chance(40) {
                        self.push("[string]: ");
                    } else {
                        let f = FIELD_NAMES[self.t.pick(FIELD_NAMES.len())];
                        self.push(f);
                        self.push(": ");
                    }
                    self.type_expr(depth - 1);
                }
                if n > 0 {
                    self.sp();
                }
                self.push("}");
            }
            7 => {
                self.labels.insert("type-callback");
                self.push("(");
                let n = self.t.pick(3);
                for i in 0..n {
                    if i > 0 {
                        self.push(", ");
                    }
                    if self.t.chance(80) {
                        let nm = self.local_name();
                        self.push(nm);
                        self.push(": ");
                    }
                    self.type_expr(depth - 1);
                }
                self.push(")");
                self.sp();
                self.push("->");
                self.sp();
                if self.t.chance(60) {
                    self.push("()");
                } else {
                    self.type_atom(depth - 1);
                }
            }
            8 if !self.o.clean => {
                self.labels.insert("type-parens");
                self.push("(");
                self.type_expr(depth - 1);
                self.push(")");
            }
            _ => {
                self.push("typeof(");
                let n = self.name();
                self.push(n);
                self.push(")");
            }
        }
    }
    fn type_atom(&mut self, depth: usize) {
        // a type that can be an operand of | and & without ambiguity
        match self.t.pick(4) {
            0 | 1 => {
                let t = TYPE_NAMES[self.t.pick(4)];
                self.push(t);
            }
            2 if self.o.clean => {
                let t = TYPE_NAMES[self.t.pick(4)];
                self.push(t);
            }
            2 if self.t.chance(64) => {
                // a parenthesised union / intersection written with a leading `|` / `&`
                self.labels.insert("type-leading-token");
                let op = if self.t.chance(128) { "|" } else { "&" };
                self.push("(");
                self.push(op);
                self.push(" ");
                let n = 1 + self.t.pick(3);
                for i in 0..n {
                    if i > 0 {
                        self.push(" ");
                        self.push(op);
                        self.push(" ");
                    }
                    let t = TYPE_NAMES[self.t.pick(4)];
                    self.push(t);
                }
                self.push(")");
            }
            2 => {
                self.push("(");
                self.type_expr(depth);
                self.push(")");
            }
            _ => {
                self.push("\"lit\"");
            }
        }
    }

    // -------------------------------------------------------------------- expressions

    fn string_lit(&mut self) {
        const STRS: [&str; 18] = [
            "\"str\"",
            "'single'",
            "\"it's\"",
            "'say \"hi\"'",
            "\"both ' and \\\" here\"",
            "'esc \\' and \" mix'",
            "\"line\\nbreak\\ttab\"",
            "\"\\65\\066\\x41\\z   next\"",
            "\"unnecessary \\q \\d escape\"",
            "\"\"",
            "[[long string]]",
            "[==[with ]] inside]==]",
            "[[\nfirst newline\nsecond]]",
            "\"a somewhat longer string literal used to force wrapping\"",
            "'\\\\'",
            "\"\\u{48}\\u{49}\"",
            "'say \"hi\" it\\'s'",
            "\"it's 'q' \\\"x\\\"\"",
        ];
        let mut i = self.t.pick(STRS.len());
        if self.o.flat && i == 12 {
            i = 10;
        }
        if self.o.clean && !matches!(i, 0 | 1 | 6 | 9 | 10 | 11 | 13) {
            // literals whose formatted spelling has another length (escapes removed, quotes escaped)
            // move wrapping boundaries between the first and the second pass: known finding KF-C06-literal-width
            i = [0, 1, 6, 13][i % 4];
        }
        if i == 15 && matches!(self.syn, Syntax::Lua51 | Syntax::Lua52) {
            i = 0;
        }
        if i == 8 {
            self.labels.insert("str:unnecessary-escape");
        }
        self.labels.insert("string");
        self.push(STRS[i]);
    }

    fn number_lit(&mut self) {
        const NUMS: [&str; 12] = ["1", "0", "42", "3.14", ".5", "1e10", "0xFF", "5.", "1E-3", "0x10p2", "100000000000000000000", "2"];
        let mut i = self.t.pick(NUMS.len() + 2);
        if i >= NUMS.len() {
            match self.syn {
                Syntax::Luau => {
                    self.push(if i == NUMS.len() { "1_000_000" } else { "0b1010" });
                    self.labels.insert("num:dialect");
                    return;
                }
                Syntax::LuaJIT => {
                    self.push(if i == NUMS.len() { "10LL" } else { "3ULL" });
                    self.labels.insert("num:dialect");
                    return;
                }
                _ => i = 0,
            }
        }
        if i == 9 && matches!(self.syn, Syntax::Lua51) {
            i = 6;
        }
        if i == 4 && self.o.clean {
            i = 3;
        }
        if i == 4 {
            self.labels.insert("num:leading-dot");
        }
        self.push(NUMS[i]);
    }

    fn table(&mut self, depth: usize) {
        self.labels.insert("table");
        self.push("{");
        let n = if self.budget <= 0 { 0 } else { self.t.pick(5) };
        let multiline = n > 0 && !self.o.clean && self.o.inner_newlines && self.t.chance(70);
        if multiline {
            self.labels.insert("table-multiline-input");
        }
        let first_on_brace_line = multiline && self.t.chance(60);
        if first_on_brace_line {
            self.labels.insert("table-first-field-on-brace-line");
        }
        for i in 0..n {
            let mut field_messy = false;
            if multiline && i == 0 && first_on_brace_line {
                self.push(" ");
            } else if multiline {
                self.push("\n");
                if self.o.c_fields && self.t.chance(50) {
                    self.write_indent(1);
                    let c = if self.t.chance(128) { self.block_comment() } else { self.line_comment() };
                    self.push(&c);
                    self.push("\n");
                    self.labels.insert("c:before-field");
                }
                if self.o.ignores && self.t.chance(40) {
                    self.write_indent(1);
                    self.push("-- stylua: ignore\n");
                    self.labels.insert("ignore-field");
                    field_messy = true;
                }
                self.write_indent(1);
            } else if i == 0 {
                self.opt_plain();
            } else {
                self.push(" ");
            }
            let saved_messy = self.messy;
            if field_messy {
                self.messy = true;
            }
            match self.t.pick(4) {
                0 => {
                    let f = FIELD_NAMES[self.t.pick(FIELD_NAMES.len())];
                    self.push(f);
                    self.sp();
                    self.push("=");
                    self.sp();
                    self.expr(depth);
                }
                1 => {
                    self.push("[");
                    match self.t.pick(3) {
                        0 => {
                            self.labels.insert("bracket-string-key");
                            self.push(" [[k]] ");
                        }
                        1 => self.string_lit(),
                        _ => self.expr(1),
                    }
                    self.push("]");
                    self.sp();
                    self.push("=");
                    self.sp();
                    self.expr(depth);
                }
                _ => self.expr(depth),
            }
            self.messy = saved_messy;
            let lastf = i + 1 == n;
            if !lastf || (!self.o.clean && self.t.chance(60)) {
                let sep = if !self.o.clean && self.t.chance(40) { ";" } else { "," };
                self.push(sep);
                if multiline && self.o.c_fields && self.t.chance(40) {
                    let c = self.line_comment();
                    self.push(" ");
                    self.push(&c);
                    self.labels.insert("c:after-field-sep");
                }
            } else if multiline && self.o.c_fields && self.t.chance(90) {
                // the last field, written without a separator, followed by a line comment
                let c = self.line_comment();
                self.push(" ");
                self.push(&c);
                self.labels.insert("c:after-last-field");
            }
        }
        if multiline {
            self.push("\n");
            self.write_indent(0);
        } else if n > 0 {
            self.opt_plain();
        }
        self.push("}");
    }

    fn binop(&mut self) -> &'static str {
        const BASE: [&str; 15] = ["+", "-", "*", "/", "%", "^", "..", "==", "~=", "<", "<=", ">", ">=", "and", "or"];
        const OPS53: [&str; 6] = ["//", "&", "|", "~", "<<", ">>"];
        let extra = match self.syn {
            Syntax::Lua53 | Syntax::Lua54 => 6,
            Syntax::Luau => 1,
            _ => 0,
        };
        let i = self.t.pick(BASE.len() + extra);
        if i < BASE.len() {
            BASE[i]
        } else {
            self.labels.insert("op:53");
            OPS53[i - BASE.len()]
        }
    }

    pub fn expr(&mut self, depth: usize) {
        self.budget -= 1;
        let leaf = depth == 0 || self.budget <= 0;
        let k = if leaf { self.t.pick(6) } else { self.t.pick(24) };
        match k {
            0 | 1 => {
                let n = self.name();
                self.push(n);
            }
            2 => self.number_lit(),
            3 => self.string_lit(),
            4 => {
                let k = ["true", "false", "nil"][self.t.pick(3)];
                self.push(k);
            }
            5 => {
                if self.in_vararg {
                    self.labels.insert("vararg");
                    self.push("...");
                } else {
                    self.push("nil");
                }
            }
            6..=9 => {
                // binary operator
                self.labels.insert("binop");
                self.expr(depth - 1);
                let mut op = self.binop();
                if self.bare_assertion_end == self.out.len() && op.starts_with('<') {
                    // `x :: T < y` would be read as the start of generic type arguments
                    op = "==";
                }
                // `a..1` and `1..b` need spaces; always separate
                self.sp();
                self.push(op);
                self.sp();
                self.expr(depth - 1);
            }
            10 => {
                self.labels.insert("unop");
                let ops: &[&str] = if self.syn.has_53_ops() { &["-", "not ", "#", "~"] } else { &["-", "not ", "#"] };
                let mut op = ops[self.t.pick(ops.len())];
                if op == "-" && self.out.ends_with('-') {
                    if self.o.clean {
                        // `- -x` is rewritten to `-(-x)`: excluded from the clean domain
                        op = "not ";
                    }
                    self.push(" ");
                }
                self.push(op);
                if op == "-" && !self.o.clean && self.t.chance(40) {
                    // `- -x` / `-(-x)`
                    self.labels.insert("double-minus");
                    if self.t.chance(128) {
                        self.push(" -");
                    } else {
                        self.push("(-");
                        self.expr(depth - 1);
                        self.push(")");
                        return;
                    }
                }
                self.expr(depth - 1);
            }
            11 | 12 if !self.o.clean || self.o.redundant_parens => {
                self.labels.insert("paren-expr");
                self.push("(");
                self.opt();
                self.expr(depth - 1);
                self.opt();
                self.push(")");
            }
            13 | 14 => {
                // call / index chain
                self.labels.insert("call-expr");
                let n = self.name();
                self.push(n);
                let k = 1 + self.t.pick(3);
                for i in 0..k {
                    if i + 1 < k && self.t.chance(128) {
                        self.index_suffix();
                    } else {
                        self.call_suffix(depth - 1);
                    }
                }
            }
            15 => {
                let n = self.name();
                self.push(n);
                self.index_suffix();
                if self.t.chance(60) {
                    self.index_suffix();
                }
            }
            16 | 17 => self.table(depth - 1),
            18 if !self.o.flat => {
                self.labels.insert("anon-function");
                self.push("function");
                self.function_body();
            }
            19 => {
                // parenthesised call / vararg (truncation)
                self.labels.insert("trunc-parens");
                self.push("(");
                if self.in_vararg && self.t.chance(80) {
                    self.push("...");
                } else {
                    let n = self.name();
                    self.push(n);
                    self.push("()");
                }
                self.push(")");
            }
            20 if self.luau() => {
                self.labels.insert("type-assertion");
                if self.t.chance(128) {
                    self.push("(");
                    self.expr(depth - 1);
                    self.push(")");
                } else {
                    let n = self.name();
                    self.push(n);
                }
                self.sp();
                self.push("::");
                self.sp();
                let t = TYPE_NAMES[self.t.pick(4)];
                self.push(t);
                self.bare_assertion_end = self.out.len();
            }
            21 if self.luau() && !self.o.clean => {
                self.labels.insert("if-expr");
                let wrap = self.t.chance(128);
                if wrap {
                    self.push("(");
                }
                self.push("if");
                self.sp();
                if self.o.clean {
                    // parentheses around an if-expression condition are removed, which moves wrapping
                    // boundaries between passes (known finding KF-C06-literal-width)
                    let n = self.name();
                    self.push(n);
                } else {
                    self.expr(depth - 1);
                }
                self.sp();
                self.push("then");
                self.sp();
                self.expr(depth - 1);
                if self.t.chance(50) {
                    self.sp();
                    self.push("elseif");
                    self.sp();
                    self.expr(depth - 1);
                    self.sp();
                    self.push("then");
                    self.sp();
                    self.expr(depth - 1);
                }
                self.sp();
                self.push("else");
                self.sp();
                self.expr(depth - 1);
                if wrap {
                    self.push(")");
                }
            }
            22 if self.luau() => {
                self.labels.insert("interp-string");
                self.push("`value: {");
                self.expr(1);
                self.push("} end`");
            }
            23 => {
                // string method call needs parentheses
                self.labels.insert("string-method");
                self.push("(");
                self.string_lit();
                self.push("):rep(2)");
            }
            _ => {
                let n = self.name();
                self.push(n);
            }
        }
    }
}
