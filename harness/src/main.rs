use vlib::cfg::catalogue;
use vlib::engine::{par_map, run_format, Case};
use vlib::oracle::Verdict;

fn main() {
    let args: Vec<String> = std::env::args().collect();
    match args.get(1).map(|s| s.as_str()) {
        Some("t0scan") => t0scan(&args[2..]),
        Some("run") => {
            let id = args.get(2).cloned().unwrap_or_default();
            let tier = vlib::run::Tier::from_args(args.get(3).map(|s| s.as_str()));
            let code = match vlib::props::e1_prop(&id) {
                Some(p) => vlib::e1::run(p, tier),
                None => match vlib::cliprops::cli_prop(&id) {
                    Some(p) => vlib::clirun::run(p, tier),
                    None => {
                        eprintln!("unknown property {id}");
                        2
                    }
                },
            };
            std::process::exit(code);
        }
        Some("replay") => {
            let text = std::fs::read_to_string(&args[2]).expect("read replay file");
            let v: serde_json::Value = serde_json::from_str(&text).expect("parse replay file");
            let id = v["property"].as_str().unwrap_or("").to_string();
            let code = match vlib::props::e1_prop(&id) {
                Some(p) => vlib::e1::replay(p, &v),
                None => match vlib::cliprops::cli_prop(&id) {
                    Some(p) => vlib::clirun::replay(p, &v),
                    None => 2,
                },
            };
            std::process::exit(code);
        }
        Some("calib") => calib(&args[2..]),
        Some("calib-gaps") => calib_gaps(&args[2..]),
        Some("judge") => {
            // development aid: vcheck judge <property> <input file> <output file> [syntax]  - the oracle's verdict on a given pair
            let prop = vlib::props::e1_prop(&args[2]).expect("library-level property");
            let src = std::fs::read_to_string(&args[3]).unwrap();
            let out = std::fs::read_to_string(&args[4]).unwrap();
            let syn = vlib::lex::Syntax::from_name(args.get(5).map_or("Luau", |s| s.as_str())).unwrap();
            let case = Case::new(src, vlib::cfg::Cfg::default_for(syn));
            println!("{:?}", (prop.oracle)(&case, &vlib::engine::Outcome::Ok(out), 0));
        }
        Some("lexdiff") => lexdiff(),
        Some("diffops") => diffops(&args[2], &args[3]),
        Some("roundtrip") => roundtrip(&args[2], &args[3]),
        Some("dumpn") => dumpn(&args[2]),
        _ => {
            eprintln!("usage: vcheck t0scan [props]");
            std::process::exit(2);
        }
    }
}

fn t0scan(props: &[String]) {
    let corpus = vlib::corpus::load();
    let mut items = Vec::new();
    for f in &corpus {
        for c in catalogue(f.syntax) {
            items.push((f.name.clone(), Case::new(f.source.clone(), c)));
        }
    }
    let t = std::time::Instant::now();
    let res = par_map(&items, |_, (name, case)| {
        let (out, _) = run_format(case);
        let mut fails = Vec::new();
        for p in props {
            let v = match vlib::props::e1_prop(p) {
                Some(prop) => (prop.oracle)(case, &out, 0),
                None => Verdict::Skip("?"),
            };
            if let Verdict::Fail(d) = v {
                fails.push(format!("{p} {name}|{} :: {d}", case.cfg.label()));
            }
        }
        if !matches!(out, vlib::engine::Outcome::Ok(_)) {
            fails.push(format!("OUT {name}|{} :: {:?}", case.cfg.label(), out));
        }
        fails
    });
    let mut n = 0;
    for f in res.iter().flatten() {
        println!("{f}");
        n += 1;
    }
    eprintln!("{} pairs, {} failures, {:.1}s", items.len(), n, t.elapsed().as_secs_f64());
}

#[allow(dead_code)]
pub fn dumpn(src: &str) {
    let n = vlib::norm::normal_form(src, vlib::lex::Syntax::Luau).unwrap();
    println!("{}", serde_json::to_string_pretty(&n).unwrap());
}

/// development-time calibration: run the generator of a property without stopping at failures
fn calib(args: &[String]) {
    use proptest::prelude::*;
    use vlib::tape::Tape;
    let id = &args[0];
    let cases: u32 = args.get(1).and_then(|s| s.parse().ok()).unwrap_or(100_000);
    let prop = vlib::props::e1_prop(id).expect("prop");
    let workers = vlib::engine::num_workers();
    let seed = vlib::run::seed();
    let res = vlib::engine::par_workers(workers, |w| {
        let mut r = vlib::run::runner(seed, "calib", w, cases / workers as u32);
        let strat = proptest::collection::vec(any::<u8>(), 0..prop.tape_len);
        let fails = std::cell::RefCell::new(Vec::<(String, String, String)>::new());
        let counts = std::cell::RefCell::new((0u64, 0u64, 0u64, std::collections::BTreeMap::<String, (u64, u64)>::new()));
        let _ = r.run(&strat, |tape| {
            let mut t = Tape::new(&tape);
            let mut labels = Vec::new();
            let Some(case) = (prop.gen_case)(&mut t, &mut labels) else { return Ok(()) };
            // the verdict domain of the real check: known-finding exclusions apply (VERIF_CALIB_RAW=1 turns them off)
            if std::env::var("VERIF_CALIB_RAW").is_err() {
                if let Some(kf) = prop.exclude.and_then(|e| e(&case)) {
                    let mut c = counts.borrow_mut();
                    c.2 += 1;
                    let e = c.3.entry(format!("excluded:{kf}")).or_default();
                    e.0 += 1;
                    return Ok(());
                }
            }
            let (out, _) = vlib::engine::run_format(&case);
            let v = (prop.oracle)(&case, &out, 0);
            let mut c = counts.borrow_mut();
            c.0 += 1;
            let mut labels: Vec<String> = labels.iter().map(|s| s.to_string()).collect();
            labels.push(format!("cfg:cp={:?}", case.cfg.call_parentheses));
            labels.push(format!("cfg:col={:?}", case.cfg.collapse));
            labels.push(format!("cfg:q={:?}", case.cfg.quote_style));
            labels.push(format!("cfg:sp={:?}", case.cfg.space_after));
            labels.push(format!("cfg:indent={:?}", case.cfg.indent_type));
            labels.push(format!("cfg:sort={:?}", case.cfg.sort_requires));
            labels.push(format!("cfg:crlf={:?}", case.cfg.line_endings));
            labels.push(format!("cfg:width={}", if case.cfg.column_width > 100000 { "max".to_string() } else { format!("{}0s", case.cfg.column_width / 10) }));
            labels.push(format!("syn:{}", case.cfg.syntax.name()));
            labels.sort();
            labels.dedup();
            let failed = v.is_fail();
            match v {
                Verdict::Fail(d) => {
                    c.1 += 1;
                    if fails.borrow().len() < 40 {
                        fails.borrow_mut().push((d, case.source.clone(), format!("{} {}", case.cfg.syntax.name(), case.cfg.label())));
                    }
                }
                Verdict::Skip(_) => c.2 += 1,
                _ => {}
            }
            for l in labels {
                let e = c.3.entry(l.clone()).or_default();
                e.0 += 1;
                if failed {
                    e.1 += 1;
                }
            }
            Ok(())
        });
        (counts.into_inner(), fails.into_inner())
    });
    let mut total = (0, 0, 0);
    let mut labels = std::collections::BTreeMap::<String, (u64, u64)>::new();
    let mut shown = 0;
    for ((n, f, s, l), fails) in res {
        total.0 += n;
        total.1 += f;
        total.2 += s;
        for (k, v) in l {
            let e = labels.entry(k).or_default();
            e.0 += v.0;
            e.1 += v.1;
        }
        for (d, src, cfg) in fails {
            if shown < 25 {
                println!("---- FAIL [{cfg}] {d}\n{src}");
                shown += 1;
            }
        }
    }
    println!("cases {} fails {} skips {}", total.0, total.1, total.2);
    for (k, v) in labels {
        println!("  {k:28} {:8} fails {:6} ({:.3}%)", v.0, v.1, 100.0 * v.1 as f64 / v.0.max(1) as f64);
    }
}

/// development-time calibration of the T3 tier: one comment in one token gap, judged by the oracles of C01, C02, C03
/// (and C10 when asked for); prints `role <tab> trials <tab> failures`. VERIF_T3_ALLOW_ONLY=1 restricts the run to
/// the roles of domain/t3roles.allow.
fn calib_gaps(args: &[String]) {
    use proptest::prelude::*;
    let cases: u32 = args.first().and_then(|s| s.parse().ok()).unwrap_or(100_000);
    let props: Vec<&'static vlib::e1::E1Prop> = ["C01", "C02", "C03"].iter().map(|id| vlib::props::e1_prop(id).unwrap()).collect();
    let allow_only = std::env::var("VERIF_T3_ALLOW_ONLY").is_ok();
    let allow = vlib::e1::load_t3_allow();
    let corpus: Vec<vlib::corpus::CorpusFile> = vlib::corpus::load().into_iter().filter(|f| f.source.len() <= 6_000).collect();
    let mut known = std::collections::BTreeSet::new();
    for id in ["C01", "C02", "C03"] {
        for f in vlib::run::load_findings(id) {
            known.extend(f.pairs.iter().cloned());
        }
    }
    let workers = vlib::engine::num_workers();
    let seed = vlib::run::seed();
    let res = vlib::engine::par_workers(workers, |w| {
        let mut r = vlib::run::runner(seed, "calib-gaps", w, cases / workers as u32);
        let strat = proptest::collection::vec(any::<u8>(), 0..400);
        let counts = std::cell::RefCell::new(std::collections::BTreeMap::<String, (u64, u64)>::new());
        let fails = std::cell::RefCell::new(Vec::<String>::new());
        let _ = r.run(&strat, |tape| {
            let mut labels = Vec::new();
            let Some((case, _key, role)) = vlib::e1::t3_build(&tape, &corpus, &known, &mut labels) else { return Ok(()) };
            if allow_only && !allow.contains(&role) {
                return Ok(());
            }
            let (out, ticks) = vlib::engine::run_format(&case);
            let mut failed = None;
            for p in &props {
                match vlib::engine::guarded(|| (p.oracle)(&case, &out, ticks)) {
                    Ok(Verdict::Fail(d)) => {
                        failed = Some(format!("{}: {d}", p.id));
                        break;
                    }
                    Ok(_) => {}
                    Err(e) => {
                        failed = Some(format!("{}: oracle panic {e}", p.id));
                        break;
                    }
                }
            }
            let mut c = counts.borrow_mut();
            let e = c.entry(role.clone()).or_default();
            e.0 += 1;
            if let Some(d) = failed {
                e.1 += 1;
                if allow_only && fails.borrow().len() < 5 {
                    fails.borrow_mut().push(format!("---- {role} :: {d} [{} {}]\n{}", case.cfg.syntax.name(), case.cfg.label(), case.source.chars().take(600).collect::<String>()));
                }
            }
            Ok(())
        });
        (counts.into_inner(), fails.into_inner())
    });
    let mut all = std::collections::BTreeMap::<String, (u64, u64)>::new();
    for (c, fails) in res {
        for (k, v) in c {
            let e = all.entry(k).or_default();
            e.0 += v.0;
            e.1 += v.1;
        }
        for f in fails {
            eprintln!("{f}");
        }
    }
    let (mut n, mut f) = (0, 0);
    for (k, v) in &all {
        println!("{k}\t{}\t{}", v.0, v.1);
        n += v.0;
        f += v.1;
    }
    eprintln!("roles {} trials {n} failures {f}", all.len());
}

#[allow(dead_code)]
pub fn lexdiff() {
    // development aid: string bodies the trusted parser accepts but the checker's lexer rejects
    use vlib::lex::{lex, Syntax};
    let alphabet = ["'", "\"", "\\", "n", "0", "1", "9", "x", "u", "{", "}", "z", "a", "q", "\n", " "];
    let mut bodies = vec![String::new()];
    let mut frontier = vec![String::new()];
    for _ in 0..3 {
        let mut next = Vec::new();
        for b in &frontier {
            for a in alphabet {
                next.push(format!("{b}{a}"));
            }
        }
        bodies.extend(next.iter().cloned());
        frontier = next;
    }
    let mut shown = 0;
    for b in bodies {
        for lit in [format!("'{b}'"), format!("\"{b}\""), format!("[[{b}]]")] {
            let p = format!("x = {lit}\n");
            for syn in [Syntax::Lua51, Syntax::Luau] {
                let ok_parse = vlib::oracle::parses(&p, syn).is_ok();
                let ok_lex = lex(&p, syn).is_ok();
                if ok_parse && !ok_lex && shown < 40 {
                    println!("{:?} parse={} lex={} {:?}", syn, ok_parse, ok_lex, p);
                    shown += 1;
                }
            }
        }
    }
}

#[allow(dead_code)]
pub fn roundtrip(path: &str, syn: &str) {
    let src = std::fs::read_to_string(path).unwrap();
    let syn = vlib::lex::Syntax::from_name(syn).unwrap();
    match vlib::norm::parse(&src, syn) {
        Ok(ast) => {
            let printed = ast.to_string();
            println!("parse ok; print==source: {}", printed == src);
            if printed != src {
                let (a, b) = vlib::oracle::first_line_diff(&src, &printed);
                println!("first differing line: {a:?} vs {b:?}");
            }
        }
        Err(e) => println!("parse error: {e}"),
    }
}

#[allow(dead_code)]
pub fn diffops(a: &str, b: &str) {
    let old = std::fs::read_to_string(a).unwrap();
    let new = std::fs::read_to_string(b).unwrap();
    let d = similar::TextDiff::from_lines(&old, &new);
    for g in d.grouped_ops(0) {
        for op in g {
            println!("{op:?}");
        }
    }
}
