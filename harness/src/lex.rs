//! The checker's own lexer (L): independent of full_moon.
//!
//! Produces every token of a Lua / Luau source text *including* trivia, with byte offsets, and
//! computes the value a literal denotes. Used for: the token sequence T, the comment census
//! (C03), literal values (C04), whitespace masks (C10), slices of statements (C08, C09).

use std::fmt::Write as _;

#[derive(Clone, Copy, Debug, PartialEq, Eq, Hash, serde::Serialize, serde::Deserialize)]
pub enum Syntax {
    Lua51,
    Lua52,
    Lua53,
    Lua54,
    LuaJIT,
    Luau,
}

impl Syntax {
    pub const ALL: [Syntax; 6] = [
        Syntax::Lua51,
        Syntax::Lua52,
        Syntax::Lua53,
        Syntax::Lua54,
        Syntax::LuaJIT,
        Syntax::Luau,
    ];
    pub fn name(self) -> &'static str {
        match self {
            Syntax::Lua51 => "Lua51",
            Syntax::Lua52 => "Lua52",
            Syntax::Lua53 => "Lua53",
            Syntax::Lua54 => "Lua54",
            Syntax::LuaJIT => "LuaJIT",
            Syntax::Luau => "Luau",
        }
    }
    pub fn from_name(s: &str) -> Option<Syntax> {
        Syntax::ALL.iter().copied().find(|x| x.name().eq_ignore_ascii_case(s))
    }
    pub fn has_int_subtype(self) -> bool {
        matches!(self, Syntax::Lua53 | Syntax::Lua54)
    }
    pub fn has_53_ops(self) -> bool {
        matches!(self, Syntax::Lua53 | Syntax::Lua54)
    }
    pub fn has_goto(self) -> bool {
        matches!(self, Syntax::Lua52 | Syntax::Lua53 | Syntax::Lua54 | Syntax::LuaJIT)
    }
}

#[derive(Clone, Copy, Debug, PartialEq, Eq, Hash)]
pub enum Kind {
    Ws,
    Shebang,
    LineComment,
    /// block comment with long-bracket level
    BlockComment(u8),
    Name,
    Number,
    /// quoted string: quote byte
    Quoted(u8),
    /// long-bracket string with level
    LongStr(u8),
    /// a piece of an interpolated string (from a backtick or `}` up to `{` or the closing backtick)
    Interp,
    Sym,
}

impl Kind {
    pub fn is_trivia(self) -> bool {
        matches!(self, Kind::Ws | Kind::Shebang | Kind::LineComment | Kind::BlockComment(_))
    }
    pub fn is_comment(self) -> bool {
        matches!(self, Kind::Shebang | Kind::LineComment | Kind::BlockComment(_))
    }
}

#[derive(Clone, Copy, Debug, PartialEq, Eq)]
pub struct Tok {
    pub kind: Kind,
    pub start: usize,
    pub end: usize,
}

impl Tok {
    pub fn text<'a>(&self, src: &'a str) -> &'a str {
        &src[self.start..self.end]
    }
}

#[derive(Debug, Clone)]
pub struct LexError {
    pub at: usize,
    pub msg: String,
}

const SYMS3: [&str; 3] = ["...", "..=", "//="];
const SYMS2: [&str; 19] = [
    "..", "==", "~=", "<=", ">=", "<<", ">>", "//", "::", "->", "+=", "-=", "*=", "/=", "%=", "^=", "=>", "&=", "|=",
];

fn is_name_start(b: u8) -> bool {
    b.is_ascii_alphabetic() || b == b'_'
}
fn is_name_char(b: u8) -> bool {
    b.is_ascii_alphanumeric() || b == b'_'
}

/// long bracket opener at `i` (`[` `=`* `[`): returns level
fn long_open(b: &[u8], i: usize) -> Option<usize> {
    if b.get(i) != Some(&b'[') {
        return None;
    }
    let mut j = i + 1;
    while b.get(j) == Some(&b'=') {
        j += 1;
    }
    if b.get(j) == Some(&b'[') {
        Some(j - i - 1)
    } else {
        None
    }
}

/// finds the end (exclusive) of a long bracket body starting after the opener
fn long_close(b: &[u8], mut i: usize, level: usize) -> Option<usize> {
    while i < b.len() {
        if b[i] == b']' {
            let mut j = i + 1;
            while b.get(j) == Some(&b'=') {
                j += 1;
            }
            if j - i - 1 == level && b.get(j) == Some(&b']') {
                return Some(j + 1);
            }
            i = j;
        } else {
            i += 1;
        }
    }
    None
}

/// Lexes the whole source. The token texts always concatenate to the source.
pub fn lex(src: &str, syn: Syntax) -> Result<Vec<Tok>, LexError> {
    let b = src.as_bytes();
    let mut out: Vec<Tok> = Vec::with_capacity(b.len() / 3 + 4);
    let mut i = 0usize;
    // stack of brace depths for interpolated strings (Luau)
    let mut interp: Vec<usize> = Vec::new();
    let luau = syn == Syntax::Luau;
    if b.starts_with(b"#!") {
        let mut j = 0;
        while j < b.len() && b[j] != b'\n' {
            j += 1;
        }
        out.push(Tok { kind: Kind::Shebang, start: 0, end: j });
        i = j;
    }
    while i < b.len() {
        let c = b[i];
        let start = i;
        match c {
            b' ' | b'\t' | b'\r' | b'\n' | 0x0b | 0x0c => {
                let mut j = i;
                while j < b.len() && matches!(b[j], b' ' | b'\t' | b'\r' | b'\n' | 0x0b | 0x0c) {
                    j += 1;
                }
                out.push(Tok { kind: Kind::Ws, start, end: j });
                i = j;
            }
            b'-' if b.get(i + 1) == Some(&b'-') => {
                if let Some(level) = long_open(b, i + 2) {
                    match long_close(b, i + 2 + level + 2, level) {
                        Some(e) => {
                            out.push(Tok { kind: Kind::BlockComment(level as u8), start, end: e });
                            i = e;
                        }
                        None => return Err(LexError { at: i, msg: "unclosed block comment".into() }),
                    }
                } else {
                    let mut j = i + 2;
                    while j < b.len() && b[j] != b'\n' {
                        j += 1;
                    }
                    // a '\r' directly before the '\n' belongs to the newline
                    let mut e = j;
                    if e > i + 2 && b[e - 1] == b'\r' && j < b.len() {
                        e -= 1;
                    }
                    out.push(Tok { kind: Kind::LineComment, start, end: e });
                    i = e;
                }
            }
            b'[' if long_open(b, i).is_some() => {
                let level = long_open(b, i).unwrap();
                match long_close(b, i + level + 2, level) {
                    Some(e) => {
                        out.push(Tok { kind: Kind::LongStr(level as u8), start, end: e });
                        i = e;
                    }
                    None => return Err(LexError { at: i, msg: "unclosed long string".into() }),
                }
            }
            b'"' | b'\'' => {
                let mut j = i + 1;
                loop {
                    match b.get(j) {
                        None => return Err(LexError { at: i, msg: "unclosed string".into() }),
                        Some(&q) if q == c => {
                            j += 1;
                            break;
                        }
                        Some(b'\\') => {
                            // `\z` skips following whitespace including newlines; `\` + CRLF
                            if b.get(j + 1) == Some(&b'\r') && b.get(j + 2) == Some(&b'\n') {
                                j += 3;
                            } else if b.get(j + 1) == Some(&b'z') {
                                j += 2;
                                while j < b.len() && matches!(b[j], b' ' | b'\t' | b'\r' | b'\n' | 0x0b | 0x0c) {
                                    j += 1;
                                }
                            } else {
                                j += 2;
                            }
                        }
                        Some(b'\n') | Some(b'\r') => return Err(LexError { at: j, msg: "newline in string".into() }),
                        Some(_) => j += 1,
                    }
                }
                if j > b.len() {
                    return Err(LexError { at: i, msg: "unclosed string".into() });
                }
                out.push(Tok { kind: Kind::Quoted(c), start, end: j });
                i = j;
            }
            b'`' if luau => {
                let (e, opened) = interp_segment(b, i + 1).ok_or(LexError { at: i, msg: "unclosed interpolated string".into() })?;
                out.push(Tok { kind: Kind::Interp, start, end: e });
                if opened {
                    interp.push(0);
                }
                i = e;
            }
            b'{' => {
                if let Some(d) = interp.last_mut() {
                    *d += 1;
                }
                out.push(Tok { kind: Kind::Sym, start, end: i + 1 });
                i += 1;
            }
            b'}' => {
                if let Some(d) = interp.last_mut() {
                    if *d == 0 {
                        // end of an interpolation: continue the string
                        interp.pop();
                        let (e, opened) = interp_segment(b, i + 1).ok_or(LexError { at: i, msg: "unclosed interpolated string".into() })?;
                        out.push(Tok { kind: Kind::Interp, start, end: e });
                        if opened {
                            interp.push(0);
                        }
                        i = e;
                        continue;
                    }
                    *d -= 1;
                }
                out.push(Tok { kind: Kind::Sym, start, end: i + 1 });
                i += 1;
            }
            _ if c.is_ascii_digit() || (c == b'.' && b.get(i + 1).map_or(false, |d| d.is_ascii_digit())) => {
                let e = lex_number(b, i, luau);
                out.push(Tok { kind: Kind::Number, start, end: e });
                i = e;
            }
            _ if is_name_start(c) => {
                let mut j = i + 1;
                while j < b.len() && is_name_char(b[j]) {
                    j += 1;
                }
                out.push(Tok { kind: Kind::Name, start, end: j });
                i = j;
            }
            _ => {
                let rest = &b[i..];
                let mut n = 0;
                for s in SYMS3.iter() {
                    if rest.starts_with(s.as_bytes()) {
                        n = 3;
                        break;
                    }
                }
                if n == 0 {
                    for s in SYMS2.iter() {
                        if rest.starts_with(s.as_bytes()) {
                            n = 2;
                            break;
                        }
                    }
                }
                // symbols that only exist in some syntaxes
                if n == 3 && (rest.starts_with(b"..=") || rest.starts_with(b"//=")) && !luau {
                    n = 2;
                }
                if n == 2 {
                    let s = &rest[..2];
                    let ok = match s {
                        b".." | b"==" | b"~=" | b"<=" | b">=" => true,
                        b"<<" | b">>" => syn.has_53_ops() || syn == Syntax::LuaJIT || luau,
                        b"//" => syn.has_53_ops() || luau,
                        b"::" => syn.has_goto() || luau,
                        _ => luau,
                    };
                    if !ok {
                        n = 0;
                    }
                }
                if n == 0 {
                    if b"+-*/%^#&~|<>=()[];:,.?@".contains(&c) {
                        n = 1;
                    } else {
                        return Err(LexError { at: i, msg: format!("unexpected byte {c:#x}") });
                    }
                }
                out.push(Tok { kind: Kind::Sym, start, end: i + n });
                i += n;
            }
        }
    }
    Ok(out)
}

/// scans an interpolated-string segment from `i` (just after a backtick or `}`); returns the end
/// (exclusive, including the closing backtick or the opening `{`) and whether an interpolation opened
fn interp_segment(b: &[u8], mut i: usize) -> Option<(usize, bool)> {
    while i < b.len() {
        match b[i] {
            b'\\' => i += 2,
            b'`' => return Some((i + 1, false)),
            b'{' => return Some((i + 1, true)),
            _ => i += 1,
        }
    }
    None
}

fn lex_number(b: &[u8], i: usize, luau: bool) -> usize {
    let mut j = i;
    let dig = |c: u8, hex: bool| if hex { c.is_ascii_hexdigit() } else { c.is_ascii_digit() } || (luau && c == b'_');
    if b[j] == b'0' && matches!(b.get(j + 1), Some(b'x') | Some(b'X')) {
        j += 2;
        while j < b.len() && dig(b[j], true) {
            j += 1;
        }
        if b.get(j) == Some(&b'.') && b.get(j + 1) != Some(&b'.') {
            j += 1;
            while j < b.len() && dig(b[j], true) {
                j += 1;
            }
        }
        if matches!(b.get(j), Some(b'p') | Some(b'P')) {
            let mut k = j + 1;
            if matches!(b.get(k), Some(b'+') | Some(b'-')) {
                k += 1;
            }
            if b.get(k).map_or(false, |c| c.is_ascii_digit()) {
                j = k;
                while j < b.len() && dig(b[j], false) {
                    j += 1;
                }
            }
        }
    } else if b[j] == b'0' && matches!(b.get(j + 1), Some(b'b') | Some(b'B')) && b.get(j + 2).map_or(false, |c| matches!(c, b'0' | b'1' | b'_')) {
        j += 2;
        while j < b.len() && (matches!(b[j], b'0' | b'1') || (luau && b[j] == b'_')) {
            j += 1;
        }
    } else {
        while j < b.len() && dig(b[j], false) {
            j += 1;
        }
        if b.get(j) == Some(&b'.') && b.get(j + 1) != Some(&b'.') {
            j += 1;
            while j < b.len() && dig(b[j], false) {
                j += 1;
            }
        }
        if matches!(b.get(j), Some(b'e') | Some(b'E')) {
            let mut k = j + 1;
            if matches!(b.get(k), Some(b'+') | Some(b'-')) {
                k += 1;
            }
            if b.get(k).map_or(false, |c| c.is_ascii_digit()) {
                j = k;
                while j < b.len() && dig(b[j], false) {
                    j += 1;
                }
            }
        }
    }
    // suffix letters (LuaJIT LL / ULL / i) and anything alphanumeric glued to the number
    while j < b.len() && is_name_char(b[j]) {
        j += 1;
    }
    j
}

// ---------------------------------------------------------------------------------------------
// literal values

/// Decodes the bytes a quoted string body denotes (`body` excludes the quotes).
/// does the body of a quoted string hold a `\x` that is not followed by two hex digits, or a `\u` that is not followed
/// by `{hex}`? No dialect with these escapes gives such a literal a value (Lua 5.1 reads `\x` as `x`).
pub fn has_malformed_escape(body: &[u8]) -> bool {
    let mut i = 0;
    while i < body.len() {
        if body[i] != b'\\' {
            i += 1;
            continue;
        }
        match body.get(i + 1) {
            Some(b'x') => {
                let ok = body.get(i + 2).map_or(false, |c| c.is_ascii_hexdigit()) && body.get(i + 3).map_or(false, |c| c.is_ascii_hexdigit());
                if !ok {
                    return true;
                }
                i += 4;
            }
            Some(b'u') => {
                let mut k = i + 2;
                if body.get(k) != Some(&b'{') {
                    return true;
                }
                k += 1;
                let start = k;
                while body.get(k).map_or(false, |c| c.is_ascii_hexdigit()) {
                    k += 1;
                }
                if k == start || body.get(k) != Some(&b'}') {
                    return true;
                }
                i = k + 1;
            }
            Some(_) => i += 2,
            None => return false,
        }
    }
    false
}

pub fn decode_quoted(body: &[u8]) -> Vec<u8> {
    let mut out = Vec::with_capacity(body.len());
    let mut i = 0;
    while i < body.len() {
        let c = body[i];
        if c != b'\\' {
            out.push(c);
            i += 1;
            continue;
        }
        i += 1;
        let Some(&e) = body.get(i) else {
            out.push(b'\\');
            break;
        };
        match e {
            b'a' => { out.push(7); i += 1 }
            b'b' => { out.push(8); i += 1 }
            b'f' => { out.push(12); i += 1 }
            b'n' => { out.push(10); i += 1 }
            b'r' => { out.push(13); i += 1 }
            b't' => { out.push(9); i += 1 }
            b'v' => { out.push(11); i += 1 }
            b'\n' => {
                out.push(10);
                i += 1;
                if body.get(i) == Some(&b'\r') { i += 1 }
            }
            b'\r' => {
                out.push(10);
                i += 1;
                if body.get(i) == Some(&b'\n') { i += 1 }
            }
            b'z' => {
                i += 1;
                while i < body.len() && matches!(body[i], b' ' | b'\t' | b'\r' | b'\n' | 0x0b | 0x0c) {
                    i += 1;
                }
            }
            b'x' => {
                let h = |k: usize| body.get(i + k).and_then(|c| (*c as char).to_digit(16));
                if let (Some(a), Some(b2)) = (h(1), h(2)) {
                    out.push((a * 16 + b2) as u8);
                    i += 3;
                } else {
                    // malformed: keep as written (marker so that a difference stays visible)
                    out.extend_from_slice(b"\\x");
                    i += 1;
                }
            }
            b'0'..=b'9' => {
                let mut v: u32 = 0;
                let mut k = 0;
                while k < 3 && body.get(i + k).map_or(false, |c| c.is_ascii_digit()) {
                    v = v * 10 + (body[i + k] - b'0') as u32;
                    k += 1;
                }
                if v > 255 {
                    // invalid in Lua; keep distinguishable
                    out.extend_from_slice(format!("\\{v}").as_bytes());
                } else {
                    out.push(v as u8);
                }
                i += k;
            }
            b'u' => {
                if body.get(i + 1) == Some(&b'{') {
                    let mut k = i + 2;
                    let mut v: u64 = 0;
                    let mut nd = 0;
                    while let Some(d) = body.get(k).and_then(|c| (*c as char).to_digit(16)) {
                        v = (v << 4) | d as u64;
                        nd += 1;
                        k += 1;
                        if nd > 8 { break }
                    }
                    if nd >= 1 && nd <= 8 && body.get(k) == Some(&b'}') && v < (1u64 << 31) {
                        utf8_esc(v as u32, &mut out);
                        i = k + 1;
                    } else {
                        out.extend_from_slice(b"\\u");
                        i += 1;
                    }
                } else {
                    out.extend_from_slice(b"\\u");
                    i += 1;
                }
            }
            other => {
                // `\"`, `\'`, `\\` and any other character: the character itself (Lua 5.1 rule)
                out.push(other);
                i += 1;
            }
        }
    }
    out
}

fn utf8_esc(x: u32, out: &mut Vec<u8>) {
    // Lua's luaO_utf8esc: up to 6 bytes, values < 2^31
    if x < 0x80 {
        out.push(x as u8);
        return;
    }
    let mut buf = [0u8; 8];
    let mut n = 1;
    let mut x = x;
    let mut mfb: u32 = 0x3f;
    loop {
        buf[8 - n] = (0x80 | (x & 0x3f)) as u8;
        n += 1;
        x >>= 6;
        mfb >>= 1;
        if x <= mfb {
            break;
        }
    }
    buf[8 - n] = (((!mfb) << 1) | x) as u8;
    out.extend_from_slice(&buf[8 - n..]);
}

/// Decodes a long-bracket string token text (including the brackets)
pub fn decode_long(text: &[u8], level: usize) -> Vec<u8> {
    let body = &text[level + 2..text.len() - level - 2];
    let mut i = 0;
    // first newline dropped
    if body.first() == Some(&b'\r') {
        i = 1;
        if body.get(1) == Some(&b'\n') {
            i = 2;
        }
    } else if body.first() == Some(&b'\n') {
        i = 1;
        if body.get(1) == Some(&b'\r') {
            i = 2;
        }
    }
    let mut out = Vec::with_capacity(body.len());
    while i < body.len() {
        match body[i] {
            b'\r' => {
                out.push(b'\n');
                i += 1;
                if body.get(i) == Some(&b'\n') { i += 1 }
            }
            b'\n' => {
                out.push(b'\n');
                i += 1;
                if body.get(i) == Some(&b'\r') { i += 1 }
            }
            c => {
                out.push(c);
                i += 1;
            }
        }
    }
    out
}

/// The value a string token denotes
pub fn string_value(tok: &Tok, src: &str) -> Vec<u8> {
    let t = tok.text(src).as_bytes();
    match tok.kind {
        Kind::Quoted(_) => decode_quoted(&t[1..t.len() - 1]),
        Kind::LongStr(l) => decode_long(t, l as usize),
        _ => t.to_vec(),
    }
}

/// Canonical key of the number a numeric literal denotes: `i:<int>`, `f:<bits>`, with a suffix tag
pub fn number_value(text: &str, syn: Syntax) -> String {
    let mut s: String = text.to_string();
    if syn == Syntax::Luau {
        s = s.replace('_', "");
    }
    let lower = s.to_ascii_lowercase();
    let mut core: &str = &lower;
    let mut suffix = "";
    let is_hex = lower.starts_with("0x");
    if syn == Syntax::LuaJIT {
        if let Some(c) = core.strip_suffix("ull") {
            core = c;
            suffix = "ull";
        } else if let Some(c) = core.strip_suffix("ll") {
            core = c;
            suffix = "ll";
        } else if !is_hex || true {
            if let Some(c) = core.strip_suffix('i') {
                core = c;
                suffix = "i";
            }
        }
    }
    let int_ok = syn.has_int_subtype() || suffix == "ll" || suffix == "ull";
    let val = if let Some(h) = core.strip_prefix("0x") {
        if h.contains('.') || h.contains('p') {
            let (mant, exp) = match h.split_once('p') {
                Some((m, e)) => (m, e.parse::<i32>().unwrap_or(i32::MAX)),
                None => (h, 0),
            };
            let (ip, fp) = mant.split_once('.').unwrap_or((mant, ""));
            let mut v: f64 = 0.0;
            let mut bad = false;
            for c in ip.chars() {
                match c.to_digit(16) {
                    Some(d) => v = v * 16.0 + d as f64,
                    None => bad = true,
                }
            }
            let mut scale = 1.0 / 16.0;
            for c in fp.chars() {
                match c.to_digit(16) {
                    Some(d) => {
                        v += d as f64 * scale;
                        scale /= 16.0;
                    }
                    None => bad = true,
                }
            }
            if bad || exp == i32::MAX {
                format!("raw:{core}")
            } else {
                format!("f:{:016x}", (v * (2f64).powi(exp)).to_bits())
            }
        } else if h.is_empty() || !h.chars().all(|c| c.is_ascii_hexdigit()) {
            format!("raw:{core}")
        } else if int_ok {
            let mut v: u64 = 0;
            for c in h.chars() {
                v = v.wrapping_mul(16).wrapping_add(c.to_digit(16).unwrap() as u64);
            }
            format!("i:{}", v as i64)
        } else {
            let mut v: f64 = 0.0;
            for c in h.chars() {
                v = v * 16.0 + c.to_digit(16).unwrap() as f64;
            }
            format!("f:{:016x}", v.to_bits())
        }
    } else if let Some(bits) = core.strip_prefix("0b") {
        if bits.is_empty() || !bits.chars().all(|c| c == '0' || c == '1') {
            format!("raw:{core}")
        } else {
            let mut v: f64 = 0.0;
            for c in bits.chars() {
                v = v * 2.0 + (c as u8 - b'0') as f64;
            }
            format!("f:{:016x}", v.to_bits())
        }
    } else {
        let looks_int = core.chars().all(|c| c.is_ascii_digit()) && !core.is_empty();
        if looks_int && int_ok {
            match core.parse::<i64>() {
                Ok(v) => format!("i:{v}"),
                Err(_) => match core.parse::<u64>() {
                    Ok(v) if suffix == "ull" => format!("i:{}", v as i64),
                    _ => match core.parse::<f64>() {
                        Ok(v) => format!("f:{:016x}", v.to_bits()),
                        Err(_) => format!("raw:{core}"),
                    },
                },
            }
        } else {
            // Rust accepts `1.`, `.5`, `1e5`, `1.e5`? -> normalise the forms it does not
            let mut t = core.to_string();
            if t.starts_with('.') {
                t.insert(0, '0');
            }
            if let Some(p) = t.find(".e") {
                t.insert(p + 1, '0');
            }
            if t.ends_with('.') {
                t.push('0');
            }
            match t.parse::<f64>() {
                Ok(v) => format!("f:{:016x}", v.to_bits()),
                Err(_) => format!("raw:{core}"),
            }
        }
    };
    format!("{val}{suffix}")
}

// ---------------------------------------------------------------------------------------------
// derived views

/// One element of the semantic token sequence T
pub fn t_sequence(src: &str, toks: &[Tok], syn: Syntax) -> Vec<String> {
    let mut out = Vec::with_capacity(toks.len());
    for t in toks {
        if t.kind.is_trivia() {
            continue;
        }
        let text = t.text(src);
        match t.kind {
            Kind::Sym => match text {
                "(" | ")" | "," | ";" => {}
                ">>" => {
                    out.push(">".to_string());
                    out.push(">".to_string());
                }
                _ => out.push(text.to_string()),
            },
            Kind::Name => out.push(text.to_string()),
            Kind::Number => out.push(format!("#{}", number_value(text, syn))),
            Kind::Quoted(_) | Kind::LongStr(_) => {
                let v = string_value(t, src);
                let mut s = String::with_capacity(v.len() * 2 + 2);
                s.push('$');
                for byte in v {
                    let _ = write!(s, "{byte:02x}");
                }
                out.push(s);
            }
            Kind::Interp => out.push(format!("`{text}")),
            _ => {}
        }
    }
    out
}

#[derive(Clone, Debug, PartialEq, Eq, Hash, PartialOrd, Ord)]
pub struct Comment {
    /// normalised text (line comment right-trimmed; block comment newlines -> `\n`)
    pub text: String,
    pub start: usize,
    pub end: usize,
}

fn normalise_newlines(s: &str) -> String {
    let b = s.as_bytes();
    let mut out = String::with_capacity(s.len());
    let mut i = 0;
    let mut last = 0;
    while i < b.len() {
        if b[i] == b'\r' && b.get(i + 1) == Some(&b'\n') {
            out.push_str(&s[last..i]);
            out.push('\n');
            i += 2;
            last = i;
        } else {
            i += 1;
        }
    }
    out.push_str(&s[last..]);
    out
}

/// All comments (and the shebang) of a source, normalised as C03 allows
pub fn comments(src: &str, toks: &[Tok]) -> Vec<Comment> {
    let mut out = Vec::new();
    for t in toks {
        match t.kind {
            Kind::LineComment | Kind::Shebang => out.push(Comment {
                text: t.text(src).trim_end().to_string(),
                start: t.start,
                end: t.end,
            }),
            Kind::BlockComment(_) => out.push(Comment {
                text: normalise_newlines(t.text(src)),
                start: t.start,
                end: t.end,
            }),
            _ => {}
        }
    }
    out
}

pub fn nontrivia(toks: &[Tok]) -> Vec<Tok> {
    toks.iter().copied().filter(|t| !t.kind.is_trivia()).collect()
}

#[cfg(test)]
mod tests {
    use super::*;
    #[test]
    fn roundtrip() {
        let s = "#!/usr/bin/lua\nlocal x = 0x1F + .5e3 -- c\n--[==[ a\n]] ]==] y = [[\nq]] .. 'a\\'b' .. \"\\z  \n c\"";
        let t = lex(s, Syntax::Lua54).unwrap();
        let joined: String = t.iter().map(|k| k.text(s)).collect();
        assert_eq!(joined, s);
        assert_eq!(number_value("0x10", Syntax::Lua51), number_value("16", Syntax::Lua51));
        assert_eq!(number_value(".5", Syntax::Lua51), number_value("0.5", Syntax::Lua51));
        assert_ne!(number_value("1", Syntax::Lua54), number_value("1.0", Syntax::Lua54));
        assert_eq!(decode_quoted(b"\\65\\x41\\u{41}\\z   A\\q"), b"AAAAq".to_vec());
    }
}
