//! Engine E1 driver: corpus tier (T0), generated tier (T1), known findings, evidence.

use crate::cfg::{catalogue, gen_cfg, Cfg};
use crate::corpus::{self, verif_root, CorpusFile};
use crate::engine::{num_workers, par_map, par_workers, run_format, Case, Outcome};
use crate::gen::{generate, GenOpts};
use crate::lex::Syntax;
use crate::oracle::Verdict;
use crate::run::{load_findings, runner, Evidence, Finding, Reporter, Stats, Tier};
use crate::tape::Tape;
use proptest::prelude::*;
use proptest::test_runner::TestError;
use serde_json::{json, Value};
use std::cell::RefCell;
use std::collections::BTreeSet;

pub type Oracle = fn(&Case, &Outcome, u64) -> Verdict;
pub type ExtraTier = fn(&mut Reporter, &mut Stats, Tier, &[Finding]);

/// How a property uses the tiers
pub struct E1Prop {
    pub id: &'static str,
    pub oracle: Oracle,
    pub rule: &'static str,
    /// builds a generated case from a tape; None = discard (counted)
    pub gen_case: fn(&mut Tape, &mut Vec<&'static str>) -> Option<Case>,
    pub quick_cases: u32,
    pub thorough_cases: u32,
    pub use_t0: bool,
    pub tape_len: usize,
    pub assumptions: &'static [&'static str],
    /// property-specific additional tier (enumerations, scaling families)
    pub extra: Option<ExtraTier>,
    /// inputs excluded from the verdict domain because they match a known finding (returns its id);
    /// never applied when a replay file is run
    pub exclude: Option<fn(&Case) -> Option<&'static str>>,
    /// the oracle without outcome-dependent tolerances (used for replay files); defaults to `oracle`
    pub raw_oracle: Option<Oracle>,
    /// T2: number of metamorphic corpus cases (quick, thorough); 0 = tier not used
    pub t2_cases: (u32, u32),
}

pub fn replay_value(prop: &str, case: &Case, detail: &str, origin: &str) -> Value {
    json!({
        "property": prop,
        "engine": "fmt",
        "origin": origin,
        "case": case,
        "detail": detail,
    })
}

pub fn case_sample(case: &Case, origin: &str, out: &Outcome) -> Value {
    let src: String = case.source.chars().take(400).collect();
    let o = match out {
        Outcome::Ok(q) => json!({ "ok": q.chars().take(400).collect::<String>() }),
        other => json!(format!("{other:?}").chars().take(200).collect::<String>()),
    };
    json!({ "origin": origin, "source": src, "config": case.cfg.label(), "syntax": case.cfg.syntax.name(), "range": case.range, "output": o })
}

fn syntax_of_tape(t: &mut Tape) -> Syntax {
    // weighted: Lua51 and Luau most often
    match t.pick(10) {
        0..=2 => Syntax::Lua51,
        3..=5 => Syntax::Luau,
        6 => Syntax::Lua52,
        7 => Syntax::Lua53,
        8 => Syntax::Lua54,
        _ => Syntax::LuaJIT,
    }
}

/// Standard generated case: program with statement-level comments, random configuration
pub fn gen_standard(t: &mut Tape, labels: &mut Vec<&'static str>, opts: GenOpts, sort: bool, with_range: bool) -> Option<Case> {
    let syn = syntax_of_tape(t);
    let mut cfg = gen_cfg(t, syn);
    if sort && t.chance(64) {
        cfg.sort_requires = true;
    }
    let range_choice = if with_range { t.pick(8) } else { 0 };
    let a = t.pick_wide(4096);
    let b = t.pick_wide(4096);
    let g = generate(t, syn, opts);
    labels.extend(g.labels.iter().copied());
    let mut case = Case::new(g.source, cfg);
    if range_choice >= 6 {
        let n = case.source.len().max(1);
        let (mut s, mut e) = (a * (n + 1) / 4096, b * (n + 1) / 4096);
        if s > e && range_choice == 6 {
            std::mem::swap(&mut s, &mut e);
        }
        case.range = Some((Some(s), Some(e)));
        labels.push("range");
    }
    Some(case)
}

pub fn run(prop: &E1Prop, tier: Tier) -> i32 {
    let seed = crate::run::seed();
    let mut ev = Evidence::new(prop.id, tier, prop.rule);
    ev.assumptions = prop.assumptions.iter().map(|s| s.to_string()).collect();
    ev.assumptions.push("full_moon's parser is trusted to decide whether a text parses under a syntax".into());
    let mut rep = Reporter::new(prop.id);
    let mut stats = Stats::default();
    let findings = load_findings(prop.id);

    // 1. replay files of known findings
    replay_findings(prop, &findings, &mut rep, &mut stats);

    // 1b. R0: saved inputs of repaired defects (plain regression checks, no generator involved)
    for (name, c) in crate::run::load_regressions(prop.id) {
        let Ok(case) = serde_json::from_value::<Case>(c) else {
            stats.notes.push(format!("regression file {name}: unreadable case"));
            continue;
        };
        let (out, ticks) = run_format(&case);
        match crate::engine::guarded(|| (prop.oracle)(&case, &out, ticks)) {
            Ok(Verdict::Fail(d)) => {
                stats.count("R0-regression");
                rep.violation(replay_value(prop.id, &case, &d, &format!("R0:{name}")), "R0");
            }
            Ok(Verdict::Pass { nontrivial }) => {
                stats.count("R0-regression");
                if nontrivial {
                    stats.nontrivial.insert(case.hash64());
                }
            }
            Ok(Verdict::Skip(w)) => stats.skip(w),
            Err(p) => stats.notes.push(format!("HARNESS-PANIC in oracle (regression {name}): {p}")),
        }
    }

    // development aid: VERIF_ONLY=T2 runs the metamorphic tier alone, VERIF_T2_CASES overrides its size
    let only_t3 = std::env::var("VERIF_ONLY").map_or(false, |v| v == "T3");
    let only_t2 = std::env::var("VERIF_ONLY").map_or(false, |v| v == "T2") || only_t3;
    if std::env::var("VERIF_ONLY").map_or(false, |v| v == "R0") {
        // development aid: the regression tier alone (used to confirm that a saved input fails on the tree before its fix)
        eprintln!("[{}] R0 only: {} evaluations, {} violations", prop.id, stats.evaluations, rep.violations);
        return rep.exit_code();
    }
    // 2. T0: corpus x catalogue
    if prop.use_t0 && !only_t2 {
        t0(prop, &findings, &mut rep, &mut stats);
    }

    // 3. T1: generated programs
    let cases = match tier {
        Tier::Quick => prop.quick_cases,
        Tier::Thorough => prop.thorough_cases,
    };
    t1(prop, seed, if only_t2 { 0 } else { cases }, &mut rep, &mut stats);

    // 3b. T2: pinned corpus pairs changed by a whitelisted mutation (statement-level comment insertion)
    let t2n = match tier {
        Tier::Quick => prop.t2_cases.0,
        Tier::Thorough => prop.t2_cases.1,
    };
    let t2n = std::env::var("VERIF_T2_CASES").ok().and_then(|v| v.parse().ok()).unwrap_or(t2n);
    t2(prop, seed, if only_t3 { 0 } else { t2n }, &findings, &mut rep, &mut stats);

    // 4. property-specific tier (development aid: VERIF_ONLY=T3 runs it alone)
    if let (Some(extra), false) = (prop.extra, only_t2 && !only_t3) {
        extra(&mut rep, &mut stats, tier, &findings);
    }

    let harness_panics: Vec<&String> = stats.notes.iter().filter(|n| n.starts_with("HARNESS-PANIC")).collect();
    let harness_broken = !harness_panics.is_empty();
    for n in harness_panics.iter().take(5) {
        eprintln!("{n}");
    }
    ev.write(&stats, rep.violations, &rep.known_lines);
    eprintln!(
        "[{}] {} evaluations, {} distinct non-trivial, {} violations, {:.1}s",
        prop.id,
        stats.evaluations,
        stats.nontrivial.len(),
        rep.violations,
        ev.started.elapsed().as_secs_f64()
    );
    if harness_broken && rep.violations == 0 {
        eprintln!("[{}] the checker itself panicked on some cases: infrastructure failure, no verdict", prop.id);
        return 2;
    }
    rep.exit_code()
}

fn replay_findings(prop: &E1Prop, findings: &[Finding], rep: &mut Reporter, stats: &mut Stats) {
    for f in findings {
        let mut still = 0;
        let mut total = 0;
        for r in &f.replays {
            let path = verif_root().join(r);
            let Ok(text) = std::fs::read_to_string(&path) else {
                stats.notes.push(format!("finding {} replay {} missing", f.id, r));
                continue;
            };
            let Ok(v) = serde_json::from_str::<Value>(&text) else { continue };
            // a file may hold one case or a list of cases
            let cases: Vec<Value> = if let Some(a) = v.get("cases").and_then(|c| c.as_array()) { a.clone() } else { vec![v["case"].clone()] };
            for c in cases {
                let Ok(case) = serde_json::from_value::<Case>(c) else { continue };
                total += 1;
                let (out, ticks) = run_format(&case);
                stats.count("known-finding-replay");
                if (prop.raw_oracle.unwrap_or(prop.oracle))(&case, &out, ticks).is_fail() {
                    still += 1;
                }
            }
        }
        if still > 0 {
            rep.known(&f.id, &format!("{} ({} of {} replay inputs still fail)", f.what, still, total));
        }
    }
}

fn t0(prop: &E1Prop, findings: &[Finding], rep: &mut Reporter, stats: &mut Stats) {
    let corpus = corpus::load();
    let mut items: Vec<(&CorpusFile, Cfg)> = Vec::new();
    for f in &corpus {
        for c in catalogue(f.syntax) {
            items.push((f, c));
        }
    }
    let results = par_map(&items, |_, (f, c)| {
        let case = Case::new(f.source.clone(), *c);
        if let Some(kf) = prop.exclude.and_then(|e| e(&case)) {
            return (Verdict::Skip(kf), case.hash64(), Outcome::ParseError(String::new()));
        }
        let (out, ticks) = run_format(&case);
        let v = (prop.oracle)(&case, &out, ticks);
        (v, case.hash64(), out)
    });
    let mut known_hits: std::collections::BTreeMap<String, usize> = Default::default();
    let mut stale: std::collections::BTreeMap<String, usize> = Default::default();
    for ((f, c), (v, h, out)) in items.iter().zip(results.into_iter()) {
        let key = format!("{}|{}", f.name, c.label());
        match v {
            Verdict::Pass { nontrivial } => {
                stats.count("T0-corpus");
                if let Some(fd) = findings.iter().find(|fd| fd.pairs.contains(&key)) {
                    // a pinned pair of a known finding that holds now: reported as a note so that the list can be pruned
                    *stale.entry(fd.id.clone()).or_default() += 1;
                }
                if nontrivial {
                    stats.nontrivial.insert(h);
                }
                if stats.samples.len() < 2 && nontrivial && f.source.len() < 300 {
                    let case = Case::new(f.source.clone(), *c);
                    stats.samples.push(case_sample(&case, &format!("T0:{key}"), &out));
                }
            }
            Verdict::Skip(why) if why.starts_with("KF-") => *stats.excluded.entry(why.to_string()).or_default() += 1,
            Verdict::Skip(why) => stats.skip(why),
            Verdict::Fail(detail) => {
                stats.count("T0-corpus");
                if let Some(fd) = findings.iter().find(|fd| fd.pairs.contains(&key)) {
                    *known_hits.entry(fd.id.clone()).or_default() += 1;
                    *stats.excluded.entry(fd.id.clone()).or_default() += 1;
                } else {
                    let case = Case::new(f.source.clone(), *c);
                    rep.violation(replay_value(prop.id, &case, &detail, &format!("T0:{key}")), "T0");
                }
            }
        }
    }
    for (id, n) in stale {
        stats.notes.push(format!("{n} pinned corpus pairs of {id} hold on this tree"));
    }
    for (id, n) in known_hits {
        let what = findings.iter().find(|f| f.id == id).map(|f| f.what.clone()).unwrap_or_default();
        rep.known(&id, &format!("{what} ({n} pinned corpus pairs)"));
    }
}

fn t1(prop: &E1Prop, seed: u64, cases: u32, rep: &mut Reporter, stats: &mut Stats) {
    if cases == 0 {
        return;
    }
    let workers = num_workers();
    let per = (cases as usize + workers - 1) / workers;
    let results = par_workers(workers, |w| {
        let st = RefCell::new(Stats::default());
        let failed = RefCell::new(false);
        let mut r = runner(seed, prop.id, w, per as u32);
        let strat = proptest::collection::vec(any::<u8>(), 0..prop.tape_len);
        let res = r.run(&strat, |tape| {
            let mut t = Tape::new(&tape);
            let mut labels = Vec::new();
            let generated = match crate::engine::guarded(|| (prop.gen_case)(&mut t, &mut labels)) {
                Ok(g) => g,
                Err(p) => {
                    st.borrow_mut().notes.push(format!("HARNESS-PANIC in generator: {p}"));
                    return Ok(());
                }
            };
            let Some(case) = generated else {
                if !*failed.borrow() {
                    st.borrow_mut().skip("generator discarded");
                }
                return Ok(());
            };
            if let Some(kf) = prop.exclude.and_then(|e| e(&case)) {
                if !*failed.borrow() {
                    *st.borrow_mut().excluded.entry(kf.to_string()).or_default() += 1;
                }
                return Ok(());
            }
            let (out, ticks) = run_format(&case);
            let v = match crate::engine::guarded(|| (prop.oracle)(&case, &out, ticks)) {
                Ok(v) => v,
                Err(p) => {
                    let mut s = st.borrow_mut();
                    if s.notes.len() < 5 {
                        s.notes.push(format!("HARNESS-PANIC in oracle: {p} :: source {:?} range {:?}", case.source.chars().take(300).collect::<String>(), case.range));
                    }
                    return Ok(());
                }
            };
            let counting = !*failed.borrow();
            match v {
                Verdict::Pass { nontrivial } => {
                    if counting {
                        let mut s = st.borrow_mut();
                        s.count("T1-generated");
                        if nontrivial {
                            s.nontrivial.insert(case.hash64());
                        }
                        let mut seen = BTreeSet::new();
                        for l in labels {
                            if seen.insert(l) {
                                s.label(l);
                            }
                        }
                        s.label(&format!("syntax:{}", case.cfg.syntax.name()));
                        if nontrivial && s.samples.len() < 1 && case.source.len() < 500 {
                            s.samples.push(case_sample(&case, &format!("T1:worker{w}"), &out));
                        }
                    }
                    Ok(())
                }
                Verdict::Skip(why) => {
                    if counting {
                        if why.starts_with("KF-") {
                            *st.borrow_mut().excluded.entry(why.to_string()).or_default() += 1;
                        } else {
                            st.borrow_mut().skip(why);
                        }
                    }
                    Ok(())
                }
                Verdict::Fail(detail) => {
                    *failed.borrow_mut() = true;
                    Err(TestCaseError::fail(detail))
                }
            }
        });
        let failure = match res {
            Ok(()) => None,
            Err(TestError::Fail(reason, tape)) => {
                let mut t = Tape::new(&tape);
                let mut labels = Vec::new();
                (prop.gen_case)(&mut t, &mut labels).map(|case| (case, reason.to_string(), tape))
            }
            Err(TestError::Abort(reason)) => {
                st.borrow_mut().notes.push(format!("worker {w} aborted: {reason}"));
                None
            }
        };
        (st.into_inner(), failure)
    });
    for (s, failure) in results {
        stats.merge(s);
        if let Some((case, reason, tape)) = failure {
            let mut v = replay_value(prop.id, &case, &reason, "T1:generated");
            v["tape"] = json!(tape);
            rep.violation(v, "T1");
        }
    }
}

/// Re-runs one replay file without any domain filtering
pub fn replay(prop: &E1Prop, v: &Value) -> i32 {
    let Ok(case) = serde_json::from_value::<Case>(v["case"].clone()) else {
        eprintln!("replay file has no case");
        return 2;
    };
    let (out, ticks) = run_format(&case);
    let verdict = (prop.raw_oracle.unwrap_or(prop.oracle))(&case, &out, ticks);
    println!("input:\n{}", case.source);
    println!("config: {} ({})", case.cfg.label(), case.cfg.syntax.name());
    match &out {
        Outcome::Ok(q) => println!("output:\n{q}"),
        other => println!("outcome: {other:?}"),
    }
    println!("ticks: {ticks}");
    match verdict {
        Verdict::Fail(d) => {
            println!("VIOLATION property={} replay=<given> :: {d}", prop.id);
            1
        }
        other => {
            println!("no violation: {other:?}");
            0
        }
    }
}

/// inserts 1-3 comments at statement level into a corpus file (own line before a statement that starts its line;
/// at the end of the line after a statement that ends its line)
pub fn mutate_with_comments(src: &str, syn: Syntax, t: &mut Tape, labels: &mut Vec<&'static str>) -> Option<String> {
    let ast = crate::engine::guarded(|| crate::norm::parse(src, syn)).ok()?.ok()?;
    let json = serde_json::to_value(ast.nodes()).ok()?;
    let mut stmts = Vec::new();
    crate::model::all_statements(&json, 0, &mut stmts);
    if stmts.is_empty() {
        return None;
    }
    let k = 1 + t.pick(3);
    // (byte offset, text) insertions
    let mut ins: Vec<(usize, String)> = Vec::new();
    let b = src.as_bytes();
    for i in 0..k {
        let st = &stmts[t.pick_wide(stmts.len().min(65535))];
        let before = t.chance(128);
        let form = t.pick(3);
        if before {
            // the statement must start its line
            let line_start = src[..st.start].rfind('\n').map_or(0, |p| p + 1);
            let indent = &src[line_start..st.start];
            if !indent.chars().all(|c| c == ' ' || c == '\t') {
                continue;
            }
            let c = match form {
                0 => format!("-- inserted {i}"),
                1 => format!("--[[ inserted {i} ]]"),
                _ => format!("--[==[ inserted {i}\n   second line ]==]"),
            };
            ins.push((line_start, format!("{indent}{c}\n")));
            labels.push("t2:comment-before-stmt");
        } else {
            // the statement (with its semicolon) must end its line
            let end = st.end_semi;
            let rest_end = b[end..].iter().position(|&c| c == b'\n').map_or(b.len(), |p| end + p);
            if !src[end..rest_end].chars().all(|c| c == ' ' || c == '\t' || c == '\r') {
                continue;
            }
            let c = if form == 0 { format!(" -- appended {i}") } else { format!(" --[[ appended {i} ]]") };
            ins.push((end, c));
            labels.push("t2:comment-after-stmt");
        }
    }
    if ins.is_empty() {
        return None;
    }
    ins.sort_by_key(|x| x.0);
    ins.dedup_by_key(|x| x.0);
    let mut out = String::with_capacity(src.len() + 64);
    let mut cur = 0;
    for (at, text) in ins {
        out.push_str(&src[cur..at]);
        out.push_str(&text);
        cur = at;
    }
    out.push_str(&src[cur..]);
    Some(out)
}

fn t2(prop: &E1Prop, seed: u64, cases: u32, findings: &[Finding], rep: &mut Reporter, stats: &mut Stats) {
    if cases == 0 {
        return;
    }
    let corpus: Vec<CorpusFile> = corpus::load().into_iter().filter(|f| f.source.len() <= 12_000).collect();
    let known: BTreeSet<String> = findings.iter().flat_map(|f| f.pairs.iter().cloned()).collect();
    let build = |tape: &[u8], labels: &mut Vec<&'static str>| -> Option<(Case, String)> {
        let mut t = Tape::new(tape);
        let f = &corpus[t.pick_wide(corpus.len())];
        let cat = catalogue(f.syntax);
        let cfg = cat[t.pick(cat.len())];
        let key = format!("{}|{}", f.name, cfg.label());
        // a base pair that is excused by a known finding is not a base
        if known.contains(&key) {
            return None;
        }
        // files whose base pair is listed for any configuration carry comments in unsupported positions
        if known.iter().any(|k| k.starts_with(&format!("{}|", f.name))) {
            return None;
        }
        let mutated = mutate_with_comments(&f.source, f.syntax, &mut t, labels)?;
        Some((Case::new(mutated, cfg), format!("{key}+comments")))
    };
    meta_tier(prop, seed, cases, "T2", "T2-corpus-mutation", 40, &build, rep, stats);
}

/// T3: a comment inserted into one gap between two code tokens whose *role* (comment form, bracket context, last
/// structural keyword, neighbouring token classes) is in the calibrated allow list `domain/t3roles.allow`. The base is a
/// generated comment-free program under a random configuration, or a pinned corpus file under a catalogue
/// configuration.
pub fn t3(prop: &E1Prop, seed: u64, cases: u32, findings: &[Finding], rep: &mut Reporter, stats: &mut Stats, all_roles: bool) {
    if cases == 0 {
        return;
    }
    let allow = load_t3_allow();
    if allow.is_empty() && !all_roles {
        stats.notes.push("T3: empty allow list, tier not run".into());
        return;
    }
    let corpus: Vec<CorpusFile> = corpus::load().into_iter().filter(|f| f.source.len() <= 6_000).collect();
    let known: BTreeSet<String> = findings.iter().flat_map(|f| f.pairs.iter().cloned()).collect();
    let build = |tape: &[u8], labels: &mut Vec<&'static str>| -> Option<(Case, String)> {
        let (case, key, role) = t3_build(tape, &corpus, &known, labels)?;
        if !all_roles && !allow.contains(&role) {
            return None;
        }
        Some((case, key))
    };
    meta_tier(prop, seed, cases, "T3", "T3-gap-comment", 400, &build, rep, stats);
}

pub fn load_t3_allow() -> BTreeSet<String> {
    std::fs::read_to_string(verif_root().join("domain/t3roles.allow"))
        .map(|s| s.lines().filter(|l| !l.starts_with('#') && !l.trim().is_empty()).map(|l| l.to_string()).collect())
        .unwrap_or_default()
}

const KEYWORDS: [&str; 26] = [
    "and", "break", "do", "else", "elseif", "end", "false", "for", "function", "goto", "if", "in", "local", "nil", "not", "or", "repeat", "return", "then", "true",
    "until", "while", "continue", "type", "export", "typeof",
];

fn tok_class(t: &crate::lex::Tok, src: &str) -> String {
    use crate::lex::Kind;
    match t.kind {
        Kind::Name => {
            let x = t.text(src);
            if KEYWORDS.contains(&x) {
                x.to_string()
            } else {
                "Name".into()
            }
        }
        Kind::Number => "Num".into(),
        Kind::Quoted(_) | Kind::LongStr(_) => "Str".into(),
        Kind::Interp => "Interp".into(),
        Kind::Sym => t.text(src).to_string(),
        _ => "?".into(),
    }
}

/// (byte offset behind the left token, role without the form) for every gap between two code tokens that holds
/// nothing but blanks
pub fn gap_roles(src: &str, syn: Syntax) -> Option<Vec<(usize, String)>> {
    use crate::lex::Kind;
    let toks = crate::lex::lex(src, syn).ok()?;
    let mut out = Vec::new();
    let mut stack: Vec<&'static str> = Vec::new();
    let mut head = String::from("^");
    let mut prev: Option<(crate::lex::Tok, String)> = None;
    let mut clean_gap = true;
    for t in &toks {
        if t.kind.is_trivia() {
            if t.kind.is_comment() {
                clean_gap = false;
            }
            continue;
        }
        let cls = tok_class(t, src);
        if let Some((p, pcls)) = &prev {
            if clean_gap && p.kind != Kind::Interp && t.kind != Kind::Interp {
                let ctx = stack.last().copied().unwrap_or("top");
                out.push((p.end, format!("{ctx}|{head}|{pcls}|{cls}")));
            }
        }
        // update the context with this token
        match cls.as_str() {
            "(" => {
                let kind = match prev.as_ref().map(|(_, c)| c.as_str()) {
                    Some("function") => "params(",
                    Some("Name") if head == "function" && stack.is_empty() => "params(",
                    Some("Name") | Some(")") | Some("]") | Some("Str") | Some("}") => "call(",
                    _ => "paren(",
                };
                stack.push(kind);
            }
            "{" => stack.push("{"),
            "[" => stack.push("["),
            ")" | "}" | "]" => {
                stack.pop();
            }
            "local" | "return" | "if" | "elseif" | "while" | "for" | "in" | "until" | "function" | "type" | "then" | "do" | "else" | "repeat" | "end" | "=" => {
                head = cls.clone();
            }
            _ => {}
        }
        prev = Some((*t, cls));
        clean_gap = true;
    }
    Some(out)
}

/// builds a T3 case from a tape: (case, origin key, role)
pub fn t3_build(tape: &[u8], corpus: &[CorpusFile], known: &BTreeSet<String>, labels: &mut Vec<&'static str>) -> Option<(Case, String, String)> {
    let mut t = Tape::new(tape);
    let form = t.pick(4);
    let gap_sel = t.pick_wide(4096);
    let (src, cfg, key) = if t.chance(96) {
        let f = &corpus[t.pick_wide(corpus.len())];
        let cat = catalogue(f.syntax);
        let cfg = cat[t.pick(cat.len())];
        let key = format!("{}|{}", f.name, cfg.label());
        if known.contains(&key) || known.iter().any(|k| k.starts_with(&format!("{}|", f.name))) {
            return None;
        }
        labels.push("t3:corpus-base");
        (f.source.clone(), cfg, key)
    } else {
        let syn = syntax_of_tape(&mut t);
        let cfg = gen_cfg(&mut t, syn);
        let g = generate(&mut t, syn, GenOpts::plain());
        labels.push("t3:generated-base");
        (g.source, cfg, "generated".to_string())
    };
    let gaps = gap_roles(&src, cfg.syntax)?;
    if gaps.is_empty() {
        return None;
    }
    let (at, role) = &gaps[gap_sel * gaps.len() / 4096];
    let (text, fname) = match form {
        0 => (" --[[ gap ]] ".to_string(), "block"),
        1 => (" -- gap\n".to_string(), "line"),
        2 => ("\n-- gap\n".to_string(), "ownline"),
        _ => (" --[==[ gap\n  second ]==] ".to_string(), "mblock"),
    };
    labels.push(match form {
        0 => "t3:block",
        1 => "t3:line",
        2 => "t3:own-line",
        _ => "t3:multi-line-block",
    });
    let mut out = String::with_capacity(src.len() + 32);
    out.push_str(&src[..*at]);
    out.push_str(&text);
    out.push_str(&src[*at..]);
    // the mutated text must still be a program of the syntax
    crate::engine::guarded(|| crate::norm::parse(&out, cfg.syntax)).ok()?.ok()?;
    Some((Case::new(out, cfg), format!("{key}+gap"), format!("{fname}|{role}")))
}

#[allow(clippy::too_many_arguments)]
fn meta_tier(
    prop: &E1Prop,
    seed: u64,
    cases: u32,
    tier_name: &'static str,
    count_name: &'static str,
    tape_len: usize,
    build: &(dyn Fn(&[u8], &mut Vec<&'static str>) -> Option<(Case, String)> + Sync),
    rep: &mut Reporter,
    stats: &mut Stats,
) {
    let workers = num_workers();
    let per = (cases as usize + workers - 1) / workers;
    let results = par_workers(workers, |w| {
        let st = RefCell::new(Stats::default());
        let failed = RefCell::new(false);
        let mut r = runner(seed, &format!("{}-{tier_name}", prop.id), w, per as u32);
        let strat = proptest::collection::vec(any::<u8>(), 0..tape_len);
        let res = r.run(&strat, |tape| {
            let mut labels = Vec::new();
            let Some((case, _key)) = build(&tape, &mut labels) else {
                if !*failed.borrow() {
                    st.borrow_mut().skip(if tier_name == "T2" { "T2: no base / no insertion point" } else { "T3: no base / role not in the allow list" });
                }
                return Ok(());
            };
            if let Some(kf) = prop.exclude.and_then(|e| e(&case)) {
                if !*failed.borrow() {
                    *st.borrow_mut().excluded.entry(kf.to_string()).or_default() += 1;
                }
                return Ok(());
            }
            let (out, ticks) = run_format(&case);
            let v = match crate::engine::guarded(|| (prop.oracle)(&case, &out, ticks)) {
                Ok(v) => v,
                Err(p) => {
                    st.borrow_mut().notes.push(format!("HARNESS-PANIC in oracle ({tier_name}): {p}"));
                    return Ok(());
                }
            };
            let counting = !*failed.borrow();
            match v {
                Verdict::Pass { nontrivial } => {
                    if counting {
                        let mut s = st.borrow_mut();
                        s.count(count_name);
                        if nontrivial {
                            s.nontrivial.insert(case.hash64());
                        }
                        labels.sort();
                        labels.dedup();
                        for l in labels {
                            s.label(l);
                        }
                    }
                    Ok(())
                }
                Verdict::Skip(why) => {
                    if counting {
                        if why.starts_with("KF-") {
                            *st.borrow_mut().excluded.entry(why.to_string()).or_default() += 1;
                        } else {
                            st.borrow_mut().skip(why);
                        }
                    }
                    Ok(())
                }
                Verdict::Fail(d) => {
                    *failed.borrow_mut() = true;
                    Err(TestCaseError::fail(d))
                }
            }
        });
        let failure = match res {
            Ok(()) => None,
            Err(TestError::Fail(reason, tape)) => {
                let mut labels = Vec::new();
                build(&tape, &mut labels).map(|(case, key)| (case, reason.to_string(), key))
            }
            Err(TestError::Abort(reason)) => {
                st.borrow_mut().notes.push(format!("worker {w} aborted: {reason}"));
                None
            }
        };
        (st.into_inner(), failure)
    });
    for (s, failure) in results {
        stats.merge(s);
        if let Some((case, reason, key)) = failure {
            rep.violation(replay_value(prop.id, &case, &reason, &format!("{tier_name}:{key}")), tier_name);
        }
    }
}
