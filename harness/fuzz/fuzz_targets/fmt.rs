#![no_main]
//! libFuzzer target (engine E5): bytes = 6 configuration bytes followed by Lua source text.
//! Every input is formatted (C07: no unwind, classification agrees with the trusted parser, work bound);
//! for inputs without comments the oracles C01, C02 and C04 are evaluated as well (comments in arbitrary positions are
//! the diffuse known-failing region, DESIGN 1.2).
//! A failure aborts with a message starting with `VIOLATION`; panics inside full_moon's parser on text it
//! does not accept are the known finding KF-C07-fullmoon-parser-panic and are tolerated.
use libfuzzer_sys::fuzz_target;
use vlib::engine::{run_format, Case};
use vlib::oracle::{self, Verdict};
use vlib::tape::Tape;

fuzz_target!(|data: &[u8]| {
    // every input is judged on a thread of its own with a large stack: deeply nested mutants otherwise exhaust the
    // fuzzer thread's stack (recorded finding D12) and end the worker without an artifact
    let data = data.to_vec();
    let handle = std::thread::Builder::new().stack_size(1 << 30).spawn(move || judge(&data)).expect("spawn");
    if handle.join().is_err() {
        eprintln!("VIOLATION property=harness :: the judging thread panicked");
        std::process::abort();
    }
});

fn judge(data: &[u8]) {
    if data.len() < 7 {
        return;
    }
    let (head, body) = data.split_at(6);
    let Ok(src) = std::str::from_utf8(body) else { return };
    if src.len() > 4000 {
        return;
    }
    let mut t = Tape::new(head);
    let syn = vlib::lex::Syntax::ALL[t.pick(6)];
    let mut cfg = vlib::cfg::gen_cfg(&mut t, syn);
    cfg.sort_requires = false;
    let strict = std::env::var("VERIF_FUZZ_STRICT").is_ok();
    // nesting bound of the harness (stack exhaustion at extreme depth is a recorded finding)
    let mut depth = 0i32;
    let mut max_depth = 0i32;
    for b in src.bytes() {
        match b {
            b'(' | b'{' | b'[' => {
                depth += 1;
                max_depth = max_depth.max(depth);
            }
            b')' | b'}' | b']' => depth -= 1,
            _ => {}
        }
    }
    if max_depth > 40 || src.matches("function").count() > 12 || src.matches(" do").count() + src.matches("then").count() > 40 {
        return;
    }
    let case = Case::new(src.to_string(), cfg);
    let (out, ticks) = run_format(&case);
    let mut fail = |prop: &str, d: String| {
        eprintln!("VIOLATION property={prop} :: {d}\nconfig: {} {}\nsource:\n{src}", cfg.syntax.name(), cfg.label());
        std::process::abort();
    };
    match oracle::c07(&case, &out, ticks) {
        Verdict::Fail(d) => {
            let known = d.starts_with("panic:") && oracle::known_panic(&d).is_some() && oracle::parses(src, syn).is_err();
            // formatter work that doubles per nesting level is the known finding KF-C07-exponential-nesting
            let known_work = d.starts_with("work bound");
            // success on text full_moon did not consume in full is the known finding KF-C07-fullmoon-lossy-parse
            let known_lossy = d.starts_with("success returned for text that the parser did not consume");
            if (!known && !known_work && !known_lossy) || strict {
                fail("C07", d);
            }
            return;
        }
        _ => {}
    }
    let has_comment = src.contains("--") || src.starts_with("#!");
    if has_comment {
        return;
    }
    // (a lone CR in front of a CRLF inside a long string is the known finding KF-C04-lone-cr-before-crlf; it changes
    // a string value, which C02's token sequence sees as well)
    if oracle::lone_cr_next_to_break(src) && !strict {
        return;
    }
    // the semantic oracles need a trustworthy reading of the input: full_moon's tree must print back to the input and
    // its token boundaries must be those of the checker's lexer (full_moon accepts e.g. a raw CR inside a quoted string
    // after `\<BEL>`, which no Lua dialect does)
    if !oracle::parser_lossless(src, syn) {
        return;
    }
    if let Verdict::Fail(d) = oracle::c04(&case, &out) {
        fail("C04", d);
    }
    if let Verdict::Fail(d) = oracle::c01(&case, &out) {
        fail("C01", d);
    }
    if let Verdict::Fail(d) = oracle::c02(&case, &out) {
        fail("C02", d);
    }
}
